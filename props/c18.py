"""C18 — the opening book never yields an illegal move (DESIGN.md section 6, C18).

Stages: translate (tx/c18_consts.py -> coq/gen/PolyglotRandoms.v) -> prove (Properties_C18.v)
-> build harness (real Book / PolyglotBook) + extracted model -> correspond on generated /
corrupted polyglot files x positions -> crafted one-key files around the weight-sum limit 2^30
(corpus "gen" lines; witnesses of the two findings fixed by /repo commit 1be778d: code in a forked
child, model on the collected candidates, UBSan build) -> (when something breaks) finder:
implementation vs the legality Spec."""
import importlib.util
import json
import math
import os
import shutil
import struct
import tempfile
from concurrent.futures import ThreadPoolExecutor

from vlib import cbuild, coqbuild
from vlib.common import NCPU, REPO, VERIF, sh

PROP_FILE = "Properties_C18.v"
GEN_V = os.path.join(VERIF, "coq", "gen", "PolyglotRandoms.v")
START_FEN = "rnbqkbnr/pppppppp/8/8/8/8/PPPPPPPP/RNBQKBNR w KQkq - 0 1"
SAN_SRCS = ("lib/texellib/book/book.cpp", "lib/texellib/book/polyglot.cpp", "lib/texellib/util/random.cpp")
SAN_UB = ("-fsanitize=undefined", "-fno-sanitize-recover=all")
SAN_ALL = ("-fsanitize=address,undefined", "-fno-sanitize-recover=all", "-fno-omit-frame-pointer")
KEY_HANG = "polyglot-file:16385-entries-under-one-key-all-weight-65535:weight-sum-above-2^30"
KEY_OVF = "polyglot-file:32769-entries-under-one-key-all-weight-65535:weight-sum-above-2^31"

# positions aimed at the case splits of getMove / the legality filter
SPECIAL_FENS = [
    START_FEN,
    "r3k2r/pppppppp/8/8/8/8/PPPPPPPP/R3K2R w KQkq - 0 1",      # both white castlings legal
    "r3k2r/pppppppp/8/8/8/8/PPPPPPPP/R3K2R b KQkq - 0 1",      # both black castlings legal
    "r3k2r/8/8/8/8/8/8/R3K2R w - - 0 1",                       # king+rooks at home, no rights
    "r3k2r/8/8/8/8/8/8/R3K2R b - - 0 1",
    "r3k2r/8/8/4r3/8/8/8/R3K2R w KQkq - 0 1",                  # white in check: no castling
    "r3k2r/8/8/8/4R3/8/8/R3K2R b KQkq - 0 1",                  # black in check
    "r3k2r/8/8/8/8/5b2/8/R3K2R w KQkq - 0 1",                  # d1 attacked: only O-O
    "r3k2r/8/5B2/8/8/8/8/R3K2R b KQkq - 0 1",                  # d8 attacked: only O-O
    "r3k2r/8/8/8/8/8/8/R3K2R w Kq - 0 1",                      # partial rights
    "r3k2r/8/8/8/8/8/8/R3K2R b Kq - 0 1",
    "k7/8/8/8/8/8/K7/4R3 w - - 0 1",                           # rook (not king) on e1: e1h1/e1a1 stay rook moves
    "4r3/k7/8/8/8/8/8/K7 b - - 0 1",                           # rook on e8
    "4k3/8/8/8/8/8/8/R3K2R w KQ - 0 1",
    "r3k2r/8/8/8/8/8/8/4K3 b kq - 0 1",
    "4k2r/8/8/8/8/8/8/4K2R w Kk - 0 1",
    "8/P6k/8/8/8/8/7K/8 w - - 0 1",                            # promotions
    "1n6/P6k/8/8/8/8/7K/8 w - - 0 1",                          # promotion by capture
    "8/7K/8/8/8/8/p6k/8 b - - 0 1",
    "8/7K/8/8/8/8/p6k/1N6 b - - 0 1",
    "4k3/8/8/8/3pP3/8/8/4K3 b - e3 0 1",                       # en passant available
    "4k3/8/8/3Pp3/8/8/8/4K3 w - e6 0 1",
    "rnbqkbnr/ppp1pppp/8/8/3pP3/8/PPPP1PPP/RNBQKBNR b KQkq e3 0 3",
    "rnbqkbnr/pppp1ppp/8/3Pp3/8/8/PPP1PPPP/RNBQKBNR w KQkq e6 0 3",
    "rnbqkbnr/1ppppppp/8/pP6/8/8/P1PPPPPP/RNBQKBNR w KQkq a6 0 3",      # en passant on the a-file
    "rnbqkbnr/ppppppp1/8/8/6Pp/8/PPPPPP1P/RNBQKBNR b KQkq g3 0 3",      # en passant next to the h-file
    "rnbqkbnr/ppp1p1pp/8/3pPp2/8/8/PPPP1PPP/RNBQKBNR w KQkq f6 0 3",     # published polyglot test vector
    "7k/5Q2/6K1/8/8/8/8/8 b - - 0 1",                          # stalemate: no legal move
    "7k/6Q1/6K1/8/8/8/8/8 b - - 0 1",                          # checkmate: no legal move
]


def load_translator():
    spec = importlib.util.spec_from_file_location("c18_consts", os.path.join(VERIF, "tx", "c18_consts.py"))
    mod = importlib.util.module_from_spec(spec)
    spec.loader.exec_module(mod)
    return mod


# ---------- small helpers ----------
def pgmove(frm, to, prom=0):
    return (to & 7) | ((to >> 3) << 3) | ((frm & 7) << 6) | ((frm >> 3) << 9) | (prom << 12)


def spec_decode(p, mv):
    """The polyglot book format's own definition of a move code (independent of model and code):
    bits 0-5 target square, 6-11 origin square, 12-14 promotion piece (1 N, 2 B, 3 R, 4 Q);
    castling is stored as king-takes-own-rook."""
    to = mv & 63
    frm = (mv >> 6) & 63
    prom = (mv >> 12) & 7
    white = p["wtm"] == "1"
    piece = {0: 0, 1: 5 if white else 11, 2: 4 if white else 10, 3: 3 if white else 9, 4: 2 if white else 8}.get(prom, 0)
    if frm == 4 and p["board"][4] == 1:
        to = {7: 6, 0: 2}.get(to, to)
    if frm == 60 and p["board"][60] == 7:
        to = {63: 62, 56: 58}.get(to, to)
    return "%d.%d.%d" % (frm, to, piece)


_RANDOM64 = None


def spec_key(p):
    """Polyglot key of a position by the format's definition (own table file, own piece order:
    bp wp bn wn bb wb br wr bq wq bk wk; castle K Q k q; en-passant file; white to move)."""
    global _RANDOM64
    if _RANDOM64 is None:
        _RANDOM64 = [int(l, 16) for l in open(os.path.join(VERIF, "props", "c18_random64.txt")) if l.strip() and not l.startswith("#")]
        assert len(_RANDOM64) == 781
    kind = {12: 0, 6: 1, 11: 2, 5: 3, 10: 4, 4: 5, 9: 6, 3: 7, 8: 8, 2: 9, 7: 10, 1: 11}
    k = 0
    for sq, pc in enumerate(p["board"]):
        if pc:
            k ^= _RANDOM64[64 * kind[pc] + sq]
    cm = int(p["castle"])
    for bit, off in ((1, 0), (0, 1), (3, 2), (2, 3)):       # white short, white long, black short, black long
        if cm & (1 << bit):
            k ^= _RANDOM64[768 + off]
    if p["ep"] != "-1":
        k ^= _RANDOM64[772 + (int(p["ep"]) & 7)]
    if p["wtm"] == "1":
        k ^= _RANDOM64[780]
    return k


def parse_fields(s):
    d = {}
    for fld in s.split(";"):
        k, _, v = fld.partition("=")
        d[k] = v
    return d


def parse_P(line):
    if not line.startswith("P ") or line.startswith("P ERR"):
        return None
    d = parse_fields(line[2:])
    d["legal"] = [x for x in d["legal"].split(",") if x]
    d["pg"] = [int(x) for x in d["pg"].split(",") if x]
    d["board"] = [int(x) for x in d["board"].split(",")]
    d["keyi"] = int(d["key"], 16)
    return d


def parse_R(line):
    """-> dict(cands=[(move,count,weight)], calls=[(rnd,move,sync)], all=str|None) or dict(err=...)"""
    if not line.startswith("R "):
        return {"err": line}
    d = parse_fields(line[2:])
    cands = []
    for c in d.get("cands", "").split(","):
        if c:
            m, cnt, w = c.split(":")
            cands.append((m, int(cnt), int(w)))
    calls = []
    for c in d.get("calls", "").split(","):
        if c:
            r, m, s = c.split(":")
            calls.append((int(r), m, int(s)))
    return {"cands": cands, "calls": calls, "all": d.get("all")}


def pos_line(p):
    return "POS %s %s %s %s" % (" ".join(str(x) for x in p["board"]), p["wtm"], p["castle"], p["ep"])


def builtin_weight(count):
    tmp = math.sqrt(float(count))
    return int(tmp * math.sqrt(tmp) * 100 + 1)


# ---------- generators (all randomness from ctx.rng) ----------
WEIGHTS = [0, 0, 1, 1, 2, 3, 10, 100, 1000, 32767, 32768, 65535]
FAULTS = (["none"] * 9 + ["trunc"] * 4 + ["append"] + ["corrupt"] * 4 + ["unsorted"] * 2 + ["reverse"] +
          ["empty", "missing", "garbage"])


def gen_entries_for(rng, p, pool, clean):
    """(move code, weight, kind) to be stored under the key of position p"""
    n = rng.choice([1, 1, 2, 2, 3, 4, 6, 10])
    out = []
    for _ in range(n):
        r = rng.random()
        w = rng.choice(WEIGHTS) if rng.random() < 0.6 else rng.randint(0, 65535)
        if p["pg"] and (clean or r < 0.75):
            i = rng.randrange(len(p["pg"]))
            mv = p["pg"][i]
            f, t, pr = (int(x) for x in p["legal"][i].split("."))
            kind = "legal"
            if (f, t) in ((4, 6), (4, 2), (60, 62), (60, 58)) and p["board"][f] in (1, 7):
                kind = "legal_castle_king_takes_rook"        # as getPGMove writes it
                if rng.random() < 0.4:
                    mv = pgmove(f, t)                          # the literal e1g1 form
                    kind = "legal_castle_literal"
            elif pr:
                kind = "legal_promotion"
            if out and rng.random() < 0.15:
                mv = out[rng.randrange(len(out))][0]
                kind = "duplicate"
        else:
            r2 = rng.random()
            if r2 < 0.3:
                mv = rng.randint(0, 65535)
                kind = "illegal_random16"
            elif r2 < 0.5 and p["pg"]:
                mv = rng.choice(p["pg"]) ^ (rng.randint(1, 7) << 12)
                kind = "illegal_promcode"
            elif r2 < 0.7:
                q = rng.choice(pool)
                mv = rng.choice(q["pg"]) if q["pg"] else 0
                kind = "move_of_other_position"
            elif r2 < 0.85:
                mv = rng.choice([pgmove(4, 7), pgmove(4, 0), pgmove(60, 63), pgmove(60, 56), pgmove(4, 6), pgmove(60, 58)])
                kind = "castle_code_maybe_illegal"
            else:
                mv = 0
                kind = "empty_move_code"
        out.append((mv, w, kind))
    return out


def gen_book(rng, pool, fault, residue, max_fill=2500, n_extra=0):
    """-> (bytes or None, positions to probe (targets + n_extra others), meta).  meta["stored"] maps key -> [(move code, weight)]
    in file order when the file is well-formed (fault none / append)."""
    k = rng.choice([1, 1, 2, 3, 5, 8])
    targets = rng.sample(pool, min(k, len(pool)))
    probes = targets + rng.sample(pool, min(len(pool), n_extra))
    recs = []
    kinds = []
    for p in targets:
        clean = rng.random() < 0.65
        for mv, w, kind in gen_entries_for(rng, p, pool, clean):
            recs.append(struct.pack(">QHHI", p["keyi"], mv, w, rng.getrandbits(32) if rng.random() < 0.5 else 0))
            kinds.append(kind)
    nfill = rng.choice([n for n in [0, 0, 0, 0, 1, 1, 2, 2, 3, 3, 5, 5, 17, 17, 64, 64, 100, 100, 300, 300, 1000, 1000, 2500, 2500, 2500, 2500, 2500, 2500, 2500, 2500, 20000, 60000] if n <= max_fill])
    near = 0
    for _ in range(min(nfill, 120)):
        r = rng.random()
        if r < 0.25 and targets:
            key = (rng.choice(targets)["keyi"] + rng.choice([-2, -1, 1, 2])) % 2 ** 64      # neighbours of a target key
        elif r < 0.3:
            key = rng.choice([0, 1, 2 ** 64 - 1, 2 ** 63])
        else:
            continue
        recs.append(struct.pack(">QHHI", key, rng.randint(0, 65535), rng.randint(0, 65535), 0))
        near += 1
    bulk_n = nfill - near
    if bulk_n > 0:
        bulk = rng.getrandbits(128 * bulk_n).to_bytes(16 * bulk_n, "big")       # random key, move, weight, learn
        recs += [bulk[i:i + 16] for i in range(0, len(bulk), 16)]
    meta = {"fault": fault, "entries": len(recs), "kinds": kinds, "residue": residue}
    if fault == "unsorted":
        rng.shuffle(recs)
    elif fault == "reverse":
        recs.sort(key=lambda c: c[:8], reverse=True)
    else:
        recs.sort(key=lambda c: c[:8])          # stable: order within a key = generation order
    data = b"".join(recs)
    if fault in ("none", "append"):
        stored = {}
        want = {struct.pack(">Q", p["keyi"]): p["keyi"] for p in probes}
        for c in recs:
            kk = want.get(c[:8])
            if kk is not None:
                m_, w_ = struct.unpack(">HH", c[8:12])
                stored.setdefault(kk, []).append((m_, w_))
        meta["stored"] = stored
        meta["stored_complete_for"] = set(want.values())
    if fault == "trunc":
        n = len(data) // 16
        keep = rng.randint(0, max(0, n - 1))
        data = data[:keep * 16 + residue] if n else bytes(rng.getrandbits(8) for _ in range(residue))
    elif fault == "append":
        data = data + bytes(rng.getrandbits(8) for _ in range(residue))
    elif fault == "corrupt" and data:
        b = bytearray(data)
        for _ in range(rng.choice([1, 1, 1, 2, 5])):
            i = rng.randrange(len(b))
            b[i] = rng.getrandbits(8) if rng.random() < 0.7 else b[i] ^ (1 << rng.randrange(8))
        data = bytes(b)
    elif fault == "empty":
        data = b""
    elif fault == "garbage":
        data = bytes(rng.getrandbits(8) for _ in range(rng.choice([1, 15, 16, 17, 160, 1000])))
    elif fault == "missing":
        data = None
    return data, probes, meta


# ---------- running the two sides ----------
def stash(tmpdir, build, name):
    """Copy a freshly built executable out of the shared build cache (other checks running at the
    same time may purge cache entries) into this run's private directory."""
    for attempt in range(3):
        exe = build()
        dst = os.path.join(tmpdir, name)
        try:
            shutil.copy(exe, dst)
            return dst
        except FileNotFoundError:
            continue
    raise RuntimeError("build cache entry for %s disappeared three times" % name)


def run_model(ml, stream, timeout=1800):
    """The extracted model recurses over the whole byte list of the file (List.length, skipn):
    give it a large stack."""
    return sh(["bash", "-c", 'ulimit -s 4000000 2>/dev/null || ulimit -s unlimited 2>/dev/null; exec "$0"', ml], input=stream, timeout=timeout)


def run_harness(exe, stream, timeout=1800):
    rc, out, err = sh([exe], input=stream, timeout=timeout)
    return rc, [l for l in out.split("\n") if l], err


def build_pool(ctx, cpp):
    rng = ctx.rng
    cmds = ["FEN " + f for f in SPECIAL_FENS]
    for _ in range(ctx.scale(24, 300)):
        cmds.append("WALK %d %d %d" % (rng.getrandbits(48), rng.choice([6, 12, 30, 60, 120]), rng.choice([0, 0, 50, 90, 100])))
    rc, lines, err = run_harness(cpp, "\n".join(cmds) + "\n")
    if rc != 0:
        raise RuntimeError("harness failed while generating positions: rc=%d %s" % (rc, err[-500:]))
    pool, seen = [], set()
    for l in lines:
        p = parse_P(l)
        if p and p["fen"] not in seen:
            seen.add(p["fen"])
            pool.append(p)
    return pool


def classify_probe(p, R):
    if not R["cands"]:
        return "no_candidates"
    legal = set(p["legal"])
    if any(m not in legal for m, _, _ in R["cands"]):
        return "filtered_illegal_candidate"
    if sum(w for _, _, w in R["cands"]) <= 0:
        return "zero_weight_sum"
    return "move_chosen"


def check_all_string(R):
    """getAllBookMoves output must list the same entries (count in parentheses)."""
    if R.get("all") is None:
        return None
    groups = [g for g in R["all"].split("_") if g]
    counts = [g[g.rfind("(") + 1:-1] for g in groups]
    if counts != [str(c) for _, c, _ in R["cands"]]:
        return "getAllBookMoves lists %s, getBookEntries has counts %s" % (R["all"], [c for _, c, _ in R["cands"]])
    return None


def correspond_chunk(seed, cpp, ml, tmpdir, books, ncalls, tag):
    """books: list of (data|None, probe positions, meta).  One harness and one model process.
    Returns result items; an item with key 'fatal' reports a process-level failure."""
    hs = ["SEED %d" % seed]
    index = []
    paths = []
    for bi, (data, probes, meta) in enumerate(books):
        path = os.path.join(tmpdir, "%s-%d.bin" % (tag, bi))
        if data is not None:
            with open(path, "wb") as f:
                f.write(data)
        paths.append(path)
        hs.append("FILE " + path)
        for p in probes:
            hs.append("FEN " + p["fen"])
            hs.append("PROBE %d" % ncalls)
            index.append((bi, p))
    rc, hl, err = run_harness(cpp, "\n".join(hs) + "\n")
    if rc != 0 or len(hl) != 2 * len(index):
        return [{"fatal": "harness rc=%d lines=%d expected=%d err=%s" % (rc, len(hl), 2 * len(index), err[-800:]), "books": books}]
    Rs = [parse_R(hl[2 * i + 1]) for i in range(len(index))]
    ms = []
    cur = -1
    for (bi, p), R in zip(index, Rs):
        if bi != cur:
            ms.append("FILE " + paths[bi] if books[bi][0] is not None else "NOFILE")
            cur = bi
        ms.append(pos_line(p))
        ms.append("LEGAL " + " ".join(p["legal"]))
        ms.append("PROBE " + " ".join(str(r) for r, _, _ in R.get("calls", [])))
    rc2, out2, err2 = run_model(ml, "\n".join(ms) + "\n", timeout=1800)
    mlines = [l for l in out2.split("\n") if l]
    if rc2 != 0 or len(mlines) != len(index):
        return [{"fatal": "model driver rc=%d lines=%d expected=%d err=%s" % (rc2, len(mlines), len(index), err2[-800:]), "books": books}]
    res = []
    for (bi, p), R, mline in zip(index, Rs, mlines):
        M = parse_fields(mline)
        data, _, meta = books[bi]
        item = {"pos": p, "R": R, "M": M, "meta": meta, "data": data, "diff": None, "spec": None}
        res.append(item)
        if "err" in R:
            item["spec"] = "probe did not return normally: %s" % R["err"]
            continue
        exp_c = ",".join("%s:%d" % (m, w) for m, _, w in R["cands"])
        exp_calls = ",".join("%d:%s" % (r, m) for r, m, _ in R["calls"])
        if M.get("key") != p["key"]:
            item["diff"] = "hash key: code %s model %s" % (p["key"], M.get("key"))
        elif M.get("cands") != exp_c:
            item["diff"] = "candidate list: code [%s] model [%s]" % (exp_c, M.get("cands"))
        elif M.get("calls") != exp_calls:
            item["diff"] = "chosen move: code [%s] model [%s]" % (exp_calls, M.get("calls"))
        elif any(s != 1 for _, _, s in R["calls"]):
            item["diff"] = "getBookMove consumed the random generator differently than one nextInt(sum) call"
        elif any(w != c for _, c, w in R["cands"]):
            item["diff"] = "polyglot weight differs from the stored count"
        elif check_all_string(R):
            item["diff"] = check_all_string(R)
        # ---- Spec side (independent of the model)
        legal = set(p["legal"])
        for r, m, _ in R["calls"]:
            if m != "0.0.0" and m not in legal:
                item["spec"] = "getBookMove returned %s which is not in the legal move list" % m
        stored = meta.get("stored")
        if stored is not None and not item["spec"] and p["keyi"] in meta.get("stored_complete_for", ()):
            want = [(spec_decode(p, mv), w) for mv, w in stored.get(p["keyi"], [])]
            got = [(m, w) for m, _, w in R["cands"]]
            if want != got:
                item["spec"] = "well-formed book: stored under the key %s, candidates %s" % (want, got)
            else:
                ok_moves = {m for m, w in want if w > 0}
                for r, m, _ in R["calls"]:
                    if m != "0.0.0" and m not in ok_moves:
                        item["spec"] = "well-formed book: returned %s which is not stored with positive weight" % m
    return res


def run_stream(ctx, cpp, ml, tmpdir, pool, nbooks, ncalls, tag, max_fill=2500):
    rng = ctx.rng
    books = []
    for i in range(nbooks):
        fault = rng.choice(FAULTS)
        books.append(gen_book(rng, pool, fault, i % 16, max_fill, rng.choice([0, 1, 3])))
    per = max(1, (len(books) + NCPU - 1) // NCPU)
    chunks = [books[i:i + per] for i in range(0, len(books), per)]
    args = [(c, rng.getrandbits(48), i) for i, c in enumerate(chunks)]
    with ThreadPoolExecutor(max_workers=NCPU) as ex:
        results = list(ex.map(lambda a: correspond_chunk(a[1], cpp, ml, tmpdir, a[0], ncalls, "%s%d" % (tag, a[2])), args))
    return [r for rs in results for r in rs]


def shrink_file(cpp, ml, tmpdir, data, p, ncalls, seed, need="any"):
    """Drop 16-byte entries while the Spec still fails (need="spec") / while model and code still
    disagree or the Spec fails (need="any")."""
    def bad(d):
        r = correspond_chunk(seed, cpp, ml, tmpdir, [(d, [p], {})], ncalls, "shrink")
        if not r:
            return False
        if need == "spec":
            return "fatal" not in r[0] and bool(r[0]["spec"])
        return bool("fatal" in r[0] or r[0]["diff"] or r[0]["spec"])
    if data is None or not bad(data):
        return data
    cur = data
    step = max(16, (len(cur) // 64) * 16)
    while step >= 16:
        i = 0
        while i < len(cur):
            cand = cur[:i] + cur[i + step:]
            if bad(cand):
                cur = cand
            else:
                i += step
        if step == 16:
            break
        step = max(16, (step // 4 // 16) * 16)
    return cur


def account(ctx, items, spec_fail, diffs, fatals):
    for it in items:
        if "fatal" in it:
            fatals.append(it)
            continue
        ctx.evaluated()
        p, R, meta = it["pos"], it["R"], it["meta"]
        ctx.count("fault_" + meta.get("fault", "none"))
        if meta.get("fault") in ("trunc", "append"):
            ctx.count("len_mod16_%d" % (len(it["data"]) % 16))
        if "err" not in R:
            cls = classify_probe(p, R)
            ctx.count("probe_" + cls)
            ctx.count("getBookMove_calls", len(R["calls"]))
            ctx.count("candidates_total", len(R["cands"]))
            if R["cands"]:
                ctx.nontrivial((it["M"].get("cands", ""), p["fen"]))
            try:
                ctx.count("binary_search_reads", int(it["M"].get("reads", "0")))
            except ValueError:
                pass
        if it["spec"]:
            spec_fail.append(it)
        if it["diff"]:
            diffs.append(it)


# ---------- other correspondences ----------
def run_builtin(ctx, cpp, ml, pool, ncalls, diffs, spec_fail):
    hs = ["SEED %d" % ctx.rng.getrandbits(48), "FILE -"]
    for p in pool:
        hs += ["FEN " + p["fen"], "PROBE %d" % ncalls]
    rc, hl, err = run_harness(cpp, "\n".join(hs) + "\n")
    if rc != 0 or len(hl) != 2 * len(pool):
        diffs.append({"diff": "built-in book: harness rc=%d %s" % (rc, err[-500:]), "pos": None, "data": None, "meta": {}})
        return
    ms = []
    Rs = []
    for i, p in enumerate(pool):
        R = parse_R(hl[2 * i + 1])
        Rs.append(R)
        ms.append("LEGAL " + " ".join(p["legal"]))
        ms.append("ENTS " + " ".join("%s:%d" % (m, w) for m, _, w in R.get("cands", [])))
        ms.append("PROBEB " + " ".join(str(r) for r, _, _ in R.get("calls", [])))
    rc2, out2, err2 = run_model(ml, "\n".join(ms) + "\n", timeout=900)
    ml_lines = [l for l in out2.split("\n") if l]
    if rc2 != 0 or len(ml_lines) != len(pool):
        diffs.append({"diff": "built-in book: model driver rc=%d %s" % (rc2, err2[-500:]), "pos": None, "data": None, "meta": {}})
        return
    for p, R, mline in zip(pool, Rs, ml_lines):
        M = parse_fields(mline)
        ctx.evaluated()
        it = {"pos": p, "R": R, "M": M, "meta": {"fault": "builtin"}, "data": None, "diff": None, "spec": None}
        if "err" in R:
            it["spec"] = "built-in probe did not return normally: %s" % R["err"]
            spec_fail.append(it)
            continue
        ctx.count("builtin_probe_" + classify_probe(p, R))
        if R["cands"]:
            ctx.nontrivial(("builtin", p["fen"]))
        exp_calls = ",".join("%d:%s" % (r, m) for r, m, _ in R["calls"])
        if M.get("calls") != exp_calls:
            it["diff"] = "built-in book chosen move: code [%s] model [%s]" % (exp_calls, M.get("calls"))
        elif any(s != 1 for _, _, s in R["calls"]):
            it["diff"] = "built-in book: random generator consumed differently than one nextInt(sum) call"
        elif any(w != builtin_weight(c) for _, c, w in R["cands"]):
            it["diff"] = "built-in weight is not (int)(sqrt(c)*sqrt(sqrt(c))*100+1): %s" % R["cands"]
        elif check_all_string(R):
            it["diff"] = check_all_string(R)
        legal = set(p["legal"])
        for r, m, _ in R["calls"]:
            if m != "0.0.0" and m not in legal:
                it["spec"] = "built-in book: getBookMove returned %s, not legal" % m
        if it["diff"]:
            diffs.append(it)
        if it["spec"]:
            spec_fail.append(it)


def run_leaf(ctx, cpp, ml, pool, diffs):
    """getMove over all 65536 codes x (side, piece on e1, piece on e8); entry codec; getMove o getPGMove."""
    rng = ctx.rng
    if ctx.quick:
        cfgs = [(w, e1, e8) for w in (0, 1) for e1 in (1, 3, 0) for e8 in (7, 9, 0)]
    else:
        cfgs = [(w, e1, e8) for w in (0, 1) for e1 in range(13) for e8 in range(13)]
    cmds = ["GM %d %d %d" % c for c in cfgs]
    codec = []
    for _ in range(ctx.scale(2000, 50000)):
        h = rng.choice([0, 1, 2 ** 64 - 1, 2 ** 63, 255, 256]) if rng.random() < 0.1 else rng.getrandbits(64)
        codec.append("CODEC %d %d %d" % (h, rng.choice([0, 65535, 255, 256, rng.getrandbits(16)]), rng.choice([0, 65535, 255, 256, rng.getrandbits(16)])))

    def both(stream_h, stream_m):
        a = run_harness(cpp, stream_h)
        rc2, out2, err2 = run_model(ml, stream_m, timeout=1800)
        return a, (rc2, [l for l in out2.split("\n") if l], err2)
    per = max(1, (len(cmds) + NCPU - 1) // NCPU)
    parts = [cmds[i:i + per] for i in range(0, len(cmds), per)] + [codec]
    with ThreadPoolExecutor(max_workers=NCPU) as ex:
        outs = list(ex.map(lambda c: both("\n".join(c) + "\n", "\n".join(c) + "\n"), parts))
    for part, ((rc1, l1, e1), (rc2, l2, e2)) in zip(parts, outs):
        if rc1 != 0 or rc2 != 0 or len(l1) != len(part) or len(l2) != len(part):
            diffs.append({"diff": "leaf functions: rc=%d/%d lines %d/%d of %d %s" % (rc1, rc2, len(l1), len(l2), len(part), (e1 + e2)[-300:]),
                          "pos": None, "data": None, "meta": {}})
            continue
        for cmd, a, b in zip(part, l1, l2):
            if cmd.startswith("GM"):
                ctx.count("getMove_codes_compared", 65536)
            else:
                ctx.count("codec_round_trips")
            if a != b:
                if cmd.startswith("GM"):
                    ta, tb = a.split(), b.split()
                    i = next(i for i in range(min(len(ta), len(tb))) if ta[i] != tb[i])
                    d = "getMove(%s) code %d: implementation %s model %s (packed (from*64+to)*16+prom)" % (cmd, i - 1, ta[i], tb[i])
                else:
                    d = "%s: implementation [%s] model [%s]" % (cmd, a, b)
                diffs.append({"diff": d, "pos": None, "data": None, "meta": {"leaf": cmd}})
                break
    # getMove(pos, getPGMove(pos, m)) = m for every legal move of every pool position (model getMove, real getPGMove)
    ms = []
    for p in pool:
        ms.append(pos_line(p))
        ms.append("PGBACK " + " ".join(str(x) for x in p["pg"]))
        ms.append("PGENC " + " ".join(p["legal"]))
    rc, out, err = run_model(ml, "\n".join(ms) + "\n", timeout=900)
    ml_lines = [l for l in out.split("\n") if l]
    if rc != 0 or len(ml_lines) != 2 * len(pool):
        diffs.append({"diff": "PGBACK/PGENC: model driver rc=%d" % rc, "pos": None, "data": None, "meta": {}})
    else:
        for i, p in enumerate(pool):
            ctx.count("pgmove_round_trips", len(p["pg"]))
            if ml_lines[2 * i] != "M " + ",".join(p["legal"]):
                diffs.append({"diff": "getMove(getPGMove(m)) != m: legal %s decoded %s" % (p["legal"], ml_lines[2 * i]), "pos": p, "data": None, "meta": {}})
                break
            if ml_lines[2 * i + 1] != "E " + ",".join(str(x) for x in p["pg"]):
                diffs.append({"diff": "getPGMove: implementation %s model %s" % (p["pg"], ml_lines[2 * i + 1]), "pos": p, "data": None, "meta": {}})
                break


# ---------- extreme inputs: the weight sum (findings) ----------
def one_key_file(p, code, weights):
    return b"".join(struct.pack(">QHHI", p["keyi"], code, w, 0) for w in weights)


def load_corpus():
    out = []
    path = os.path.join(VERIF, "corpus", "c18.txt")
    if os.path.exists(path):
        for line in open(path):
            line = line.strip()
            if line and not line.startswith("#"):
                out.append(json.loads(line))
    return out


def confirm_extremes(ctx, cpp, ml, tmpdir, start, diffs):
    """Crafted one-key files around the weight-sum limit (corpus lines with a "gen" field: the
    witnesses of the two former findings and the boundaries next to them).  For each: the real
    code in a forked child under an alarm (must return; result legal or empty; a move when the
    sum is within the limit), the model's getBookMove on the candidate list the code collected
    (same random numbers; must agree), and the UBSan build of book.cpp/polyglot.cpp/random.cpp
    (no runtime error).  A revert of the /repo fix shows up here as hang / signed overflow."""
    import time
    cases = [c for c in load_corpus() if "gen" in c]
    if len(cases) < 3:
        raise RuntimeError("corpus/c18.txt lost its crafted weight-sum files")
    ub = stash(tmpdir, lambda: cbuild.build_harness("book_harness", extra_flags=SAN_UB, extra_srcs=SAN_SRCS), "book_harness_ubsan")
    legal = set(start["legal"])
    alarm = None
    out = {}
    for ci, c in enumerate(cases):
        name = c["name"]
        code = start["pg"][start["legal"].index(c["gen"]["move"])]
        ws = [w for cnt, w in c["gen"]["weights"] for _ in range(cnt)]
        total = sum(ws)
        path = os.path.join(tmpdir, "extreme-%d.bin" % ci)
        with open(path, "wb") as f:
            f.write(one_key_file(start, code, ws))
        desc = {"file": "%d entries under the key of the start position, move %s, weights (count x weight) %s" % (len(ws), c["gen"]["move"], c["gen"]["weights"]),
                "bytes": 16 * len(ws), "weight_sum": total, "fen": START_FEN, "corpus_name": name, "gen": c["gen"]}
        t0 = time.time()
        rc, lines, err = run_harness(cpp, "SEED 7\nFEN %s\nFILE %s\nPROBE 4 ! %d\n" % (START_FEN, path, alarm or 120), timeout=600)
        if alarm is None:
            alarm = int(max(4, 4 * (time.time() - t0) + 2))       # tells a hang from a slow machine
        if rc != 0 or len(lines) != 2:
            raise RuntimeError("extreme-input run failed: rc=%d lines=%s err=%s" % (rc, lines[:2], err[-300:]))
        res = lines[1]
        out[name] = res[:70] + (" ... " + res[res.find(";calls="):][:120] if res.startswith("R ") else "")
        ctx.evaluated()
        ctx.count("extreme_files_probed")
        if not res.startswith("R "):
            ctx.count("extreme_abnormal")
            ctx.violation("book probe does not return on a crafted file (weight sum %d): %s%s" % (
                              total, res[:60], "; Random::nextInt(sum) rejects every trial above 2^30" if res.startswith("TIMEOUT") else ""),
                          dict(desc, observed=res[:300], command="PROBE in a forked child with a %d s alarm" % (alarm or 120)),
                          key=c.get("key_abnormal") or ("polyglot-file:%s:abnormal" % name))
            continue
        R = parse_R(res)
        bad = [m for _, m, _ in R["calls"] if m != "0.0.0" and m not in legal]
        if bad:
            ctx.violation("crafted file: getBookMove returned %s, not legal" % bad[0], dict(desc, observed=res[-300:]),
                          key="polyglot-file:%s:illegal" % name)
        elif total <= 2 ** 30 and any(m == "0.0.0" for _, m, _ in R["calls"]):
            ctx.violation("crafted file with weight sum %d <= 2^30 (all moves legal, positive weights): no move returned" % total,
                          dict(desc, observed=res[-300:]), key="polyglot-file:%s:no-move" % name)
        # model at getBookMove level on the candidate list the code collected
        if ml:
            ms = ["LEGAL " + " ".join(start["legal"]), "ENTS " + " ".join("%s:%d" % (m, w) for m, _, w in R["cands"]),
                  "PROBEB " + " ".join(str(r) for r, _, _ in R["calls"])]
            rc2, out2, err2 = run_model(ml, "\n".join(ms) + "\n", timeout=600)
            M = parse_fields(out2.strip().split("\n")[-1]) if out2.strip() else {}
            exp_calls = ",".join("%d:%s" % (r, m) for r, m, _ in R["calls"])
            agree = rc2 == 0 and M.get("calls") == exp_calls and len(R["cands"]) == len(ws)
            if not agree:
                diffs.append({"diff": "crafted file %s (weight sum %d): implementation [%s] (%d candidates), model [%s]" % (
                                  name, total, exp_calls, len(R["cands"]), M.get("calls")), "pos": None, "data": None, "meta": {"fault": "extreme"}})
            ctx.count("extreme_model_agrees" if agree else "extreme_model_disagrees")
            ctx.count("extreme_no_move_both" if agree and all(m == "0.0.0" for _, m, _ in R["calls"]) else "extreme_move_both" if agree else "extreme_other")
        # the same probe under UBSan
        rc, lines, err = run_harness(ub, "FEN %s\nFILE %s\nPROBE 1 ! %d\n" % (START_FEN, path, 3 * alarm), timeout=600 + 3 * alarm)
        res = lines[1] if len(lines) > 1 else "no output"
        if "runtime error" in err:
            ctx.count("extreme_ubsan_error")
            ctx.violation("undefined behaviour in the book probe on a crafted file (weight sum %d): %s" % (total, err.strip().split("\n")[0][:200]),
                          dict(desc, ubsan=err.strip()[:600]), key=c.get("key_ubsan") or ("polyglot-file:%s:ubsan" % name))
        elif not res.startswith("R "):
            ctx.count("extreme_abnormal")
            ctx.violation("book probe (UBSan build) does not return on a crafted file (weight sum %d): %s" % (total, res[:60]),
                          dict(desc, observed=res[:300], stderr=err[-400:]), key=c.get("key_abnormal") or ("polyglot-file:%s:abnormal" % name))
        else:
            ctx.count("extreme_ubsan_clean")
    out["alarm_s"] = alarm
    ctx.notes["extreme_inputs"] = out


# ---------- finder: implementation vs Spec only ----------
def finder(ctx, cpp, tmpdir, pool, first_items, nbooks, sanitized=None):
    """Runs the real code (optionally the sanitizer build) on the inputs of the disagreements and on
    fresh generated books; checks only the Spec: normal return, result legal or empty, well-formed
    book => exactly the stored entries.  Returns a failing item or None."""
    rng = ctx.rng
    exe = sanitized or cpp
    books = [(it["data"], [it["pos"]], it["meta"]) for it in first_items if it.get("pos") is not None]
    for i in range(nbooks):
        fault = rng.choice(FAULTS)
        books.append(gen_book(rng, pool, fault, i % 16, 2500, 2))
    per = max(1, (len(books) + NCPU - 1) // NCPU)
    chunks = [books[i:i + per] for i in range(0, len(books), per)]

    def one(a):
        ci, chunk = a
        hs = ["SEED %d" % (ci + 1)]
        idx = []
        for bi, (data, probes, meta) in enumerate(chunk):
            path = os.path.join(tmpdir, "f%d-%d.bin" % (ci, bi))
            if data is not None:
                with open(path, "wb") as f:
                    f.write(data)
            hs.append("FILE " + path)
            for p in probes:
                hs += ["FEN " + p["fen"], "PROBE 6 ! 20"]
                idx.append((bi, p))
        rc, hl, err = run_harness(exe, "\n".join(hs) + "\n")
        bad = []
        if rc != 0 or len(hl) != 2 * len(idx):
            return [{"spec": "harness died: rc=%d %s" % (rc, err[-400:]), "pos": None, "data": None, "meta": {}}], 0
        for i, (bi, p) in enumerate(idx):
            line = hl[2 * i + 1]
            R = parse_R(line)
            data, _, meta = chunk[bi]
            it = {"pos": p, "R": R, "data": data, "meta": meta, "spec": None}
            legal = set(p["legal"])
            if "err" in R:
                it["spec"] = "probe did not return normally: %s" % R["err"]
            else:
                for r, m, _ in R["calls"]:
                    if m != "0.0.0" and m not in legal:
                        it["spec"] = "getBookMove returned %s, not legal" % m
                st = meta.get("stored")
                if st is not None and not it["spec"] and p["keyi"] in meta.get("stored_complete_for", ()):
                    want = [(spec_decode(p, mv), w) for mv, w in st.get(p["keyi"], [])]
                    if want != [(m, w) for m, _, w in R["cands"]]:
                        it["spec"] = "well-formed book: stored %s, candidates %s" % (want, R["cands"])
            if it["spec"]:
                bad.append(it)
        return bad, len(idx)
    with ThreadPoolExecutor(max_workers=NCPU) as ex:
        rs = list(ex.map(one, list(enumerate(chunks))))
    ctx.count("finder_probes_vs_spec", sum(n for _, n in rs))
    for bad, _ in rs:
        if bad:
            return bad[0]
    return None


def item_replay(it):
    p = it.get("pos")
    data = it.get("data")
    return {"fen": p["fen"] if p else None, "file_hex": data.hex() if data is not None and len(data) <= 200000 else None,
            "file_len": len(data) if data is not None else None, "file_missing": data is None,
            "fault": it.get("meta", {}).get("fault"), "implementation": {k: v for k, v in it.get("R", {}).items()} if it.get("R") else None,
            "model": it.get("M"), "disagreement": it.get("diff"), "spec_failure": it.get("spec")}


def run(ctx):
    ctx.rule = ("positions: start position, 24 hand-made castling/promotion/en-passant/no-move positions, positions along random "
                "legal games (some following the built-in book); books: 1..8 target positions with 1..10 entries each (legal "
                "moves incl. both castling encodings and promotions, duplicates, zero/extreme weights, illegal codes) + 0..2500 "
                "filler entries incl. neighbours of the target keys, sorted; faults: truncation to every length mod 16, appended "
                "bytes, byte corruption, unsorted/reversed, empty, missing, garbage; each (book, position) probed through "
                "getBookEntries/getAllBookMoves and several getBookMove calls whose random numbers are replayed in the model; "
                "non-trivial = probe with at least one candidate, distinct by (candidate list, position)")
    ctx.trusted_base = ["Coq 8.16.1 kernel (coqc, vm_compute)", "extraction (ExtrOcamlBasic only) + OCaml 4.13 + drivers/book_driver.ml",
                        "harness/book_harness.cpp (private members opened by #define; random numbers re-derived from a copy of Book::rndGen)",
                        "tx/c18_consts.py (regex translator of constants/tables)",
                        "hand-written model coq/Book/{Polyglot,BuiltIn}.v tied by correspondence",
                        "MoveGen legal move list (input to model and Spec)"]
    ctx.assumptions = ["model = code is established by differential testing, not by proof",
                       "the legal-move list is an input (real MoveGen); its correctness is C01",
                       "Book::getWeight for the built-in book is an arbitrary function in the proofs (double arithmetic is not modelled)",
                       "regular files: std::fstream delivers the bytes of the file; I/O errors are not modelled"]
    # (1) translate
    tr = load_translator()
    tie_broken = None
    try:
        tr.main(REPO, GEN_V)
    except tr.TranslateError as ex:
        tie_broken = "translator refused: %s" % ex
        ctx.log(tie_broken)
    # (2) prove
    if tie_broken and not os.path.exists(GEN_V):
        raise RuntimeError(tie_broken)
    ctx.log("translated constants%s" % (" (TIE BROKEN)" if tie_broken else ""))
    ok, info = coqbuild.prove(ctx, PROP_FILE, timeout=ctx.scale(900, 1800))
    ctx.log("proof stage %s" % ("ok" if ok else "FAILED"))
    proof_broken = (not ok) or bool(tie_broken)
    if not ok:
        ctx.log("proof stage failed: %s" % json.dumps(info.get("errors", [])[:2])[:600])
    # (3) build
    tmpdir = tempfile.mkdtemp(prefix="c18-", dir="/tmp")
    try:
        cpp = stash(tmpdir, lambda: cbuild.build_harness("book_harness"), "book_harness")
        ml = None
        try:
            ml = stash(tmpdir, lambda: coqbuild.extract("ExtractBook.v", "book_driver.ml", "book_driver"), "book_driver")
        except RuntimeError as ex:
            proof_broken = True
            info.setdefault("errors", []).append(("extraction", 0, str(ex)[:500]))
        ctx.log("harness and extracted model built")
        pool = build_pool(ctx, cpp)
        ctx.count("positions_in_pool", len(pool))
        ctx.count("positions_castling_legal", sum(1 for p in pool if any(m in p["legal"] for m in ("4.6.0", "4.2.0", "60.62.0", "60.58.0")) and p["board"][4 if p["wtm"] == "1" else 60] in (1, 7)))
        ctx.count("positions_with_ep", sum(1 for p in pool if p["ep"] != "-1"))
        spec_fail, diffs, fatals = [], [], []
        for p in pool:
            ctx.count("hash_keys_vs_format_definition")
            if spec_key(p) != p["keyi"]:
                spec_fail.append({"pos": p, "data": None, "meta": {"fault": "hashkey"}, "R": None, "M": None, "diff": None,
                                  "spec": "PolyglotBook::getHashKey = %s, polyglot format definition = %016x" % (p["key"], spec_key(p))})
                break
        if ml:
            # (4) correspond: corpus first
            cb = []
            for c in load_corpus():
                if "gen" in c:
                    continue                     # crafted weight-sum files: see confirm_extremes
                rc, pl, _ = run_harness(cpp, "FEN %s\n" % c["fen"])
                p = parse_P(pl[0]) if pl else None
                if p:
                    cb.append((bytes.fromhex(c["file_hex"]) if c.get("file_hex") is not None else None, [p], {"fault": "corpus"}))
            if cb:
                account(ctx, correspond_chunk(1, cpp, ml, tmpdir, cb, 8, "corpus"), spec_fail, diffs, fatals)
            items = run_stream(ctx, cpp, ml, tmpdir, pool, ctx.scale(640, 8000), ctx.scale(8, 8), "b",
                               max_fill=ctx.scale(2500, 60000))
            account(ctx, items, spec_fail, diffs, fatals)
            for it in items[:3]:
                if "fatal" not in it:
                    ctx.sample({"fen": it["pos"]["fen"], "fault": it["meta"].get("fault"), "file_bytes": len(it["data"]) if it["data"] is not None else None,
                                "implementation_candidates": it["R"].get("cands"), "implementation_calls": it["R"].get("calls"),
                                "model": it["M"]})
            if not ctx.quick:
                # statistical coverage: with many calls every positive-weight candidate is returned
                cov_books = []
                for i in range(60):
                    cov_books.append(gen_book(ctx.rng, pool, "none", 0, 300))
                cov = correspond_chunk(ctx.rng.getrandbits(48), cpp, ml, tmpdir, cov_books, 600, "cov")
                account(ctx, cov, spec_fail, diffs, fatals)
                for it in cov:
                    if "fatal" in it or "err" in it["R"] or classify_probe(it["pos"], it["R"]) != "move_chosen":
                        continue
                    tot = sum(w for _, _, w in it["R"]["cands"])
                    seen = {m for _, m, _ in it["R"]["calls"]}
                    for m, _, w in it["R"]["cands"]:
                        if w > 0 and w / tot >= 0.04 and m not in seen:        # miss probability < 0.96^600 ~ 2e-11
                            it["spec"] = "stored move %s with weight %d/%d never returned in 600 calls" % (m, w, tot)
                            spec_fail.append(it)
                    ctx.count("coverage_probes")
            # getAllBookMoves with illegal candidates (not reachable from the engine: ComputerPlayer calls it
            # only after getBookMove succeeded).  Abnormal termination is recorded as an observation.
            ill = [it for it in items if "fatal" not in it and "err" not in it["R"] and
                   classify_probe(it["pos"], it["R"]) == "filtered_illegal_candidate"][:ctx.scale(80, 3000)]
            jobs = []
            for i, it in enumerate(ill):
                path = os.path.join(tmpdir, "all-%d.bin" % i)
                with open(path, "wb") as f:
                    f.write(it["data"])
                jobs.append("FILE %s\nFEN %s\nALL ! 1\n" % (path, it["pos"]["fen"]))
            if jobs:
                with ThreadPoolExecutor(max_workers=NCPU) as ex:
                    outs = [(hl[1] if len(hl) > 1 else "ERR no output") for _, hl, _ in ex.map(lambda j: run_harness(cpp, j, timeout=60), jobs)]
                abnormal = [(it["pos"]["fen"], o, [m for m, _, _ in it["R"]["cands"]]) for it, o in zip(ill, outs) if not o.startswith("A ")]
                ctx.count("getAllBookMoves_with_illegal_candidates_ok", len(outs) - len(abnormal))
                ctx.count("getAllBookMoves_with_illegal_candidates_abnormal", len(abnormal))
                if abnormal:
                    ctx.notes["observation_getAllBookMoves"] = {"what": "getAllBookMoves terminated abnormally (1 s alarm) on a book with illegal "
                                                                "candidates; outside the engine's call pattern (ComputerPlayer calls it only "
                                                                "after getBookMove returned a move)", "examples": abnormal[:3]}
            ctx.log("polyglot stream done: %d probes, %d disagreements, %d spec failures" % (ctx.evaluations, len(diffs), len(spec_fail)))
            run_builtin(ctx, cpp, ml, pool, ctx.scale(6, 20), diffs, spec_fail)
            run_leaf(ctx, cpp, ml, pool, diffs)
            ctx.log("built-in book and leaf functions done")
        ctx.traces_validated = ctx.evaluations
        for f in fatals:
            diffs.append({"diff": f["fatal"], "pos": None, "data": None, "meta": {}})
        # extreme inputs (findings F7 and nextInt range) on the real code
        confirm_extremes(ctx, cpp, ml, tmpdir, pool[0], diffs)
        ctx.log("extreme inputs done")
        # sanitizer build over the same generators (thorough)
        san = None
        if not ctx.quick:
            san = stash(tmpdir, lambda: cbuild.build_harness("book_harness", extra_flags=SAN_ALL, extra_srcs=SAN_SRCS), "book_harness_asan")
            f = finder(ctx, cpp, tmpdir, pool, [], 3000, sanitized=san)
            if f:
                spec_fail.append(f)
        # verdict
        if spec_fail:
            it = spec_fail[0]
            small = it["data"]
            if ml and it.get("pos") is not None and small is not None and len(small) <= 400000:
                small = shrink_file(cpp, ml, tmpdir, small, it["pos"], 24, 1, need="spec")
                again = correspond_chunk(1, cpp, ml, tmpdir, [(small, [it["pos"]], {"fault": it["meta"].get("fault")})], 24, "final")
                if again and "fatal" not in again[0] and again[0]["spec"]:
                    it = again[0]
                else:
                    small = it["data"]
            rep = item_replay(it)
            ctx.violation("book probe violates the specification: %s" % it["spec"],
                          {"failing_input": rep, "count": len(spec_fail), "broken_proof": info if proof_broken else None},
                          key=("hashkey;fen:%s" % it["pos"]["fen"]) if it["meta"].get("fault") == "hashkey" else
                          "file:%s;fen:%s" % (small.hex()[:4000] if small is not None else "missing", it["pos"]["fen"] if it.get("pos") else "-"))
            return
        if not proof_broken and not diffs:
            return
        if proof_broken and not diffs and any(not nfi for _, _, nfi in ctx.violations):
            return        # the crafted files already gave concrete failing inputs for the broken tie
        # (5) find
        replay = {"broken_proof": info if proof_broken else None, "translator": tie_broken, "disagreement": None}
        first = []
        if diffs:
            it = diffs[0]
            if ml and it.get("pos") is not None and it.get("data") is not None and len(it["data"]) <= 400000:
                small = shrink_file(cpp, ml, tmpdir, it["data"], it["pos"], 8, 1)
                again = correspond_chunk(1, cpp, ml, tmpdir, [(small, [it["pos"]], {"fault": it["meta"].get("fault")})], 8, "final")
                if again and "fatal" not in again[0] and again[0]["diff"]:
                    again[0]["original_len"] = len(it["data"])
                    it = again[0]
            replay["disagreement"] = item_replay(it)
            replay["disagreement"]["count"] = len(diffs)
            first = [it] + diffs[1:40]
            ctx.log("correspondence broken: %s" % (it.get("diff") or "")[:300])
        found = finder(ctx, cpp, tmpdir, pool, first, ctx.scale(1500, 20000), sanitized=san)
        if found:
            replay["failing_input"] = item_replay(found)
            d = found.get("data")
            ctx.violation("book probe violates the specification: %s" % found["spec"], replay,
                          key="file:%s;fen:%s" % (d.hex()[:4000] if d is not None else "missing", found["pos"]["fen"] if found.get("pos") else "-"))
        else:
            what = ("theorem(s) in %s no longer check / translator tie broken" % PROP_FILE) if proof_broken else \
                "correspondence model/implementation broken: %s" % (diffs[0].get("diff") or "")[:200]
            replay["broken"] = what
            ctx.violation(what, replay, no_failing_input=True)
    finally:
        shutil.rmtree(tmpdir, ignore_errors=True)


def replay(ctx, body):
    r = body.get("replay", {})
    it = r.get("failing_input") or r.get("disagreement") or r
    if not isinstance(it, dict):
        it = r
    cpp = cbuild.build_harness("book_harness")
    tmpdir = tempfile.mkdtemp(prefix="c18-replay-", dir="/tmp")
    try:
        fen = it.get("fen") or START_FEN
        path = os.path.join(tmpdir, "book.bin")
        if it.get("file_hex") is not None:
            with open(path, "wb") as f:
                f.write(bytes.fromhex(it["file_hex"]))
        elif it.get("gen"):
            rc, pl, _ = run_harness(cpp, "FEN %s\n" % fen)
            p = parse_P(pl[0])
            ws = [w for cnt, w in it["gen"]["weights"] for _ in range(cnt)]
            with open(path, "wb") as f:
                f.write(one_key_file(p, p["pg"][p["legal"].index(it["gen"]["move"])], ws))
        rc, lines, err = run_harness(cpp, "SEED 1\nFILE %s\nFEN %s\nPROBE 8 ! 5\n" % (path, fen), timeout=120)
        print("fen:", fen)
        print("book file:", path, "(missing)" if not os.path.exists(path) else "%d bytes" % os.path.getsize(path))
        legal = set()
        for l in lines:
            print("implementation:", l[:2000])
            if l.startswith("P "):
                pp = parse_P(l)
                legal = set(pp["legal"]) if pp else set()
            elif l.startswith("R "):
                R = parse_R(l)
                for r_, m, _ in R.get("calls", []):
                    print("  getBookMove ->", m, "(empty move)" if m == "0.0.0" else "LEGAL" if m in legal else "*** NOT LEGAL ***")
            else:
                print("  *** probe did not return normally ***")
        if err.strip():
            print("stderr:", err.strip()[:1000])
    finally:
        shutil.rmtree(tmpdir, ignore_errors=True)
