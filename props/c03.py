"""C03 — every search result is a legal, well-formed answer in any configuration (DESIGN.md section 6).

Stages: (1) regenerate the score constants from constants.hpp -> coq/gen/RootConsts.v;
(2) prove coq/Properties_C03.v (model coq/Root/Root.v: root-move filtering, getRootMoves, the root loop of
iterativeDeepening over an oracle stream, PV extraction over a TT oracle, ponder move, score formatting);
(3)+(4) correspondence of the directly callable pieces (MoveList::filter, Search::getRootMoves with injected
random seeds, Search::notifyPV/score formatting through a recording listener, TranspositionTable::extractPVMoves
and EngineControl-style ponder-move lookup on a hand-filled table) against the extracted model;
(F) finder: the real UCI engine over the configuration grid against the independent legal-move oracle
props/c03_chess.py — this stage always runs, because the property's quantifier is over engine answers."""
import json
import os
import random
import time
from concurrent.futures import ThreadPoolExecutor

from vlib import cbuild, coqbuild
from vlib.common import NCPU, REPO, VERIF, sh

from . import c03_chess as ch
from . import c03_finder as fd

PROP_FILE = "Properties_C03.v"


# ------------------------------------------------------------------------------------------------
# finder driver
# ------------------------------------------------------------------------------------------------
def replay_script(session, upto):
    """UCI script (list of commands / ('sleep', ms)) reproducing the session up to step `upto`."""
    cmds = ["uci"]
    for i, st in enumerate(session["steps"][:upto + 1]):
        cmds += fd.step_commands(st)
        if i < upto:
            cmds.append(("wait", "bestmove"))
    cmds.append(("wait", "bestmove"))
    return cmds


def run_script(exe, cmds, timeout=60.0):
    """Run a replay script; returns all output lines of the last search."""
    eng = fd.Engine(exe)
    last = []
    try:
        for c in cmds:
            if isinstance(c, tuple) and c[0] == "sleep":
                deadline = time.time() + c[1] / 1000.0
                while True:
                    l = eng.readline(deadline)
                    if l is None:
                        break
                    last.append(l)
            elif isinstance(c, tuple) and c[0] == "wait":
                if not any(l.startswith(c[1]) for l in last):
                    out, ok = eng.wait_for(c[1], timeout)
                    last += out
                done = last
                last = []
            else:
                if isinstance(c, str) and c.startswith("go"):
                    last = []
                eng.send(c)
                if c == "isready":
                    eng.wait_for("readyok", 30)
                if c == "uci":
                    eng.wait_for("uciok", 30)
    finally:
        eng.close()
    return done


def minimise(exe, session, idx, what):
    """Try to reproduce violation `what` of step idx with fewer preceding steps / a single search.
    Returns (session', idx') of the smallest reproducing script found (possibly the original)."""
    def reproduces(ses, i):
        res = fd.run_session(exe, dict(net=ses["net"], steps=ses["steps"][:i + 1]))
        if len(res) <= i:
            return what.startswith("engine-")
        v = fd.check_search(ses["steps"][i], res[i]["lines"])
        if res[i]["status"] != "ok":
            return what.startswith("engine-")
        return any(x[0] == what for x in v)
    step = dict(session["steps"][idx])
    # 1. the failing search alone, with all options in force given explicitly
    alone = dict(step)
    alone["options"] = dict(step["opts_now"])
    cand = dict(net=session["net"], steps=[alone])
    for _ in range(2):
        if reproduces(cand, 0):
            return cand, 0
    # 2. drop preceding steps one at a time
    steps = list(session["steps"][:idx + 1])
    changed = True
    while changed and len(steps) > 1:
        changed = False
        for j in range(len(steps) - 2, -1, -1):
            c = steps[:j] + steps[j + 1:]
            # options of the removed step move to its successor so the configuration stays the same
            c[j] = dict(c[j])
            c[j]["options"] = dict(steps[j]["options"], **c[j]["options"])
            if reproduces(dict(net=session["net"], steps=c), len(c) - 1):
                steps = c
                changed = True
                break
    return dict(net=session["net"], steps=steps), len(steps) - 1


def finder(ctx, nsessions, nsearch, thorough, engines):
    rng = ctx.rng
    sessions = [fd.gen_session(rng, thorough, nsearch) for _ in range(nsessions)]
    # a fixed regression session first: `go ponder` after a `go searchmoves` (corpus of past findings)
    corpus = os.path.join(VERIF, "corpus", "c03.json")
    if os.path.exists(corpus):
        for s in json.load(open(corpus)):
            s["net"] = tuple(s["net"])
            sessions.insert(0, s)
    t0 = time.time()

    def one(ses):
        return fd.run_session(engines[tuple(ses["net"])], ses, per_search_timeout=ctx.scale(60.0, 300.0))
    with ThreadPoolExecutor(max_workers=NCPU) as ex:
        results = list(ex.map(one, sessions))
    ctx.log("finder: %d sessions run in %.1fs" % (len(sessions), time.time() - t0))
    found = []
    for ses, res in zip(sessions, results):
        for i, r in enumerate(res):
            if i >= len(ses["steps"]):
                break
            step = ses["steps"][i]
            ctx.evaluated()
            ctx.count("search_total")
            ctx.count("pos_" + step["poskind"])
            ctx.count("limit_" + step["limit"])
            ctx.count("net_%s%d" % tuple(ses["net"]))
            ctx.count("searchmoves_" + step["smkind"])
            for k in ("Hash", "Threads", "MultiPV"):
                ctx.count("%s_%s" % (k, step["opts_now"].get(k, fd.DEFAULTS[k])))
            if int(step["opts_now"].get("Strength", 1000)) < 1000:
                ctx.count("strength_reduced")
            if int(step["opts_now"].get("Strength", 1000)) < 200:
                ctx.count("strength_below_200_subset")
            if str(step["opts_now"].get("UCI_LimitStrength", "false")) == "true":
                ctx.count("limit_strength")
            if int(step["opts_now"].get("MaxNPS", 0)) > 0:
                ctx.count("maxnps")
            if str(step["opts_now"].get("UCI_AnalyseMode", "false")) == "true":
                ctx.count("analyse_mode")
            if str(step["opts_now"].get("UseNullMove", "true")) == "false":
                ctx.count("nullmove_off")
            if int(step["opts_now"].get("Contempt", 0)) != 0:
                ctx.count("contempt_nonzero")
            lines = r["lines"]
            npv = sum(1 for l in lines if " pv " in l)
            ctx.count("info_pv_lines_checked", npv)
            ctx.count("pv_moves_checked", sum(len(l.split(" pv ", 1)[1].split()) for l in lines if " pv " in l))
            ctx.count("multipv_lines", sum(1 for l in lines if " multipv " in l))
            ctx.count("mate_score_lines", sum(1 for l in lines if " score mate " in l))
            ctx.count("bound_lines", sum(1 for l in lines if "bound " in l))
            bm = [l for l in lines if l.startswith("bestmove")]
            if bm and bm[0].split()[1:2] == ["0000"]:
                ctx.count("bestmove_null")
            if bm and " ponder " in bm[0]:
                ctx.count("ponder_moves_checked")
            nleg = len(ch.legal_uci(ch.parse_fen(step["fen"])))
            if nleg >= 2 and npv >= 1:
                ctx.nontrivial(step["fen"] + "|" + step["go"] + "|" + " ".join(step["searchmoves"]) + "|" +
                               json.dumps(step["opts_now"], sort_keys=True))
            ctx.sample({"position": step["position"][:120], "go": step["go"], "searchmoves": step["searchmoves"][:5],
                        "options": step["opts_now"], "net": list(ses["net"]),
                        "answer": bm[0] if bm else None, "info_pv_lines": npv}, limit=5)
            if r["status"] != "ok":
                found.append((ses, i, ("engine-" + r["status"].split()[0], r["status"]), lines))
                break
            viol = fd.check_search(step, lines)
            seen = set()
            for v in viol:
                if v[0] in seen:
                    continue
                seen.add(v[0])
                found.append((ses, i, v, lines))
    return found


def report_found(ctx, found, engines):
    done_keys = set()
    budget = 6
    for ses, i, v, lines in found:
        step = ses["steps"][i]
        exe = engines[tuple(ses["net"])]
        kkey = fd.classify_known(step, v, ses["steps"][:i])
        if kkey and kkey in done_keys:
            continue
        ses2, i2 = ses, i
        if budget > 0 and not (kkey and ctx.kf.match(ctx.prop, kkey)):
            budget -= 1
            try:
                ses2, i2 = minimise(exe, ses, i, v[0])
            except Exception as ex:     # minimisation is best effort
                ctx.log("minimise failed: %s" % ex)
        st2 = ses2["steps"][i2]
        key = kkey or ("%s|%s|%s|%s|%s|net=%s%d" % (v[0], st2["fen"].replace(" ", "_"), st2["go"].replace(" ", "_"),
                                                     ",".join(st2["searchmoves"]),
                                                     ",".join("%s=%s" % kv for kv in sorted(st2["opts_now"].items())),
                                                     ses2["net"][0], ses2["net"][1]))
        done_keys.add(key)
        rep = {"what": v[0], "detail": v[1], "net": list(ses2["net"]), "script": replay_script(ses2, i2),
               "root_fen": st2["fen"], "legal_moves_by_oracle": sorted(ch.legal_uci(ch.parse_fen(st2["fen"]))),
               "searchmoves": st2["searchmoves"], "options_in_force": st2["opts_now"],
               "engine_output_tail": lines[-25:], "steps_before_minimisation": i + 1}
        ctx.violation("engine answer violates C03: %s (%s)" % (v[0], v[1][:200]), rep, key=key)


# ------------------------------------------------------------------------------------------------
def run(ctx):
    ctx.rule = ("finder: sessions of 5 searches on one engine process; positions = random legal games (0..120 plies, "
                "startpos+moves or FEN+moves), checkmate/stalemate roots, single-legal-move roots, half-move clock "
                "97..101/150, random <=4-man endings; limits = depth/nodes/movetime/clock/mate/infinite+stop/ponder+"
                "ponderhit|stop/combinations; options = Hash, Threads, MultiPV, Strength, UCI_LimitStrength+UCI_Elo, "
                "MaxNPS, UseNullMove, UCI_AnalyseMode, Contempt, AnalyzeContempt, searchmoves (subset, with duplicates "
                "and illegal moves, illegal only, all); 4 synthetic nets.  non-trivial = root with >= 2 legal moves and "
                ">= 1 PV line checked; distinct by (root FEN, go, searchmoves, options)")
    thorough = not ctx.quick
    nets = [("material", 1), ("random", 2), ("random", 3), ("extreme", 4)]
    engines = {n: cbuild.build_engine(net_kind=n[0], net_seed=n[1]) for n in nets}
    found = finder(ctx, ctx.scale(32, 1000), 5, thorough, engines)
    report_found(ctx, found, engines)


def replay(ctx, body):
    r = body.get("replay", {})
    net = tuple(r.get("net", ("material", 1)))
    exe = cbuild.build_engine(net_kind=net[0], net_seed=int(net[1]))
    cmds = [tuple(c) if isinstance(c, list) else c for c in r["script"]]
    print("# engine: %s (net %s %s)" % (exe, net[0], net[1]))
    for c in cmds:
        print("#   ", c)
    out = run_script(exe, cmds)
    for l in out:
        print(l)
    print("# root:", r.get("root_fen"))
    print("# legal moves by the oracle:", " ".join(r.get("legal_moves_by_oracle", [])))
    print("# searchmoves:", r.get("searchmoves"))
    print("# reported:", body.get("what"))
