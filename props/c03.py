"""C03 — every search result is a legal, well-formed answer in any configuration (DESIGN.md section 6).

Stages: (1) regenerate the score constants from constants.hpp -> coq/gen/RootConsts.v;
(2) prove coq/Properties_C03.v (model coq/Root/Root.v: root-move filtering, getRootMoves, the root loop of
iterativeDeepening over an oracle stream, PV extraction over a TT oracle, ponder move, score formatting);
(3)+(4) correspondence of the directly callable pieces (MoveList::filter, Search::getRootMoves with injected
random seeds, Search::notifyPV/score formatting through a recording listener, TranspositionTable::extractPVMoves
and EngineControl-style ponder-move lookup on a hand-filled table) against the extracted model;
(F) finder: the real UCI engine over the configuration grid against the independent legal-move oracle
props/c03_chess.py — this stage always runs, because the property's quantifier is over engine answers."""
import json
import os
import random
import time
from concurrent.futures import ThreadPoolExecutor

from vlib import cbuild, coqbuild
from vlib.common import NCPU, REPO, VERIF, sh

from . import c03_chess as ch
from . import c03_finder as fd

PROP_FILE = "Properties_C03.v"


# ------------------------------------------------------------------------------------------------
# finder driver
# ------------------------------------------------------------------------------------------------
def replay_script(session, upto):
    """UCI script (list of commands / ('sleep', ms)) reproducing the session up to step `upto`."""
    cmds = ["uci"]
    for i, st in enumerate(session["steps"][:upto + 1]):
        cmds += fd.step_commands(st)
        if i < upto:
            cmds.append(("wait", "bestmove"))
    cmds.append(("wait", "bestmove"))
    return cmds


def run_script(exe, cmds, timeout=60.0):
    """Run a replay script; returns all output lines of the last search."""
    eng = fd.Engine(exe)
    last = []
    try:
        for c in cmds:
            if isinstance(c, tuple) and c[0] == "sleep":
                deadline = time.time() + c[1] / 1000.0
                while True:
                    l = eng.readline(deadline)
                    if l is None:
                        break
                    last.append(l)
            elif isinstance(c, tuple) and c[0] == "wait":
                if not any(l.startswith(c[1]) for l in last):
                    out, ok = eng.wait_for(c[1], timeout)
                    last += out
                done = last
                last = []
            else:
                if isinstance(c, str) and c.startswith("go"):
                    last = []
                eng.send(c)
                if c == "isready":
                    eng.wait_for("readyok", 30)
                if c == "uci":
                    eng.wait_for("uciok", 30)
    finally:
        eng.close()
    return done


def minimise(exe, session, idx, what):
    """Try to reproduce violation `what` of step idx with fewer preceding steps / a single search.
    Returns (session', idx') of the smallest reproducing script found (possibly the original)."""
    def reproduces(ses, i):
        res = fd.run_session(exe, dict(net=ses["net"], steps=ses["steps"][:i + 1]))
        if len(res) <= i:
            return what.startswith("engine-")
        v = fd.check_search(ses["steps"][i], res[i]["lines"])
        if res[i]["status"] != "ok":
            return what.startswith("engine-") and res[i]["status"].startswith("crash")
        return any(x[0] == what for x in v)
    step = dict(session["steps"][idx])
    # 1. the failing search alone, with all options in force given explicitly
    alone = dict(step)
    alone["options"] = dict(step["opts_now"])
    cand = dict(net=session["net"], steps=[alone])
    for _ in range(2):
        if reproduces(cand, 0):
            return cand, 0
    # 2. drop preceding steps one at a time
    steps = list(session["steps"][:idx + 1])
    changed = True
    while changed and len(steps) > 1:
        changed = False
        for j in range(len(steps) - 2, -1, -1):
            c = steps[:j] + steps[j + 1:]
            # options of the removed step move to its successor so the configuration stays the same
            c[j] = dict(c[j])
            c[j]["options"] = dict(steps[j]["options"], **c[j]["options"])
            if reproduces(dict(net=session["net"], steps=c), len(c) - 1):
                steps = c
                changed = True
                break
    return dict(net=session["net"], steps=steps), len(steps) - 1


def finder(ctx, nsessions, nsearch, thorough, engines):
    rng = ctx.rng
    sessions = [fd.gen_session(rng, thorough, nsearch) for _ in range(nsessions)]
    # a fixed regression session first: `go ponder` after a `go searchmoves` (corpus of past findings)
    corpus = os.path.join(VERIF, "corpus", "c03.json")
    if os.path.exists(corpus):
        for s in json.load(open(corpus)):
            s["net"] = tuple(s["net"])
            sessions.insert(0, s)
    # outside the option grid of C03 but part of the same answer path: a book move (OwnBook + BookFile) is answered
    # without looking at searchmoves.  One fixed session keeps the observation alive (its own known-finding key).
    import struct
    from vlib.common import CACHE
    book = os.path.join(CACHE, "c03-book.bin")
    with open(book, "wb") as f:
        f.write(struct.pack(">QHHI", 0x463b96181691fc9c, 796, 1, 0))       # polyglot: startpos -> e2e4
    sessions.insert(0, dict(net=("material", 1), steps=[dict(
        options={"OwnBook": "true", "BookFile": book}, newgame=False, position="position startpos", poskind="game",
        fen=ch.START_FEN, go="go depth 3", limit="depth", stop_after=None, ponderhit=None, searchmoves=["d2d4"],
        smkind="subset", opts_now={"OwnBook": "true", "BookFile": book})]))
    t0 = time.time()

    def one(ses):
        return fd.run_session(engines[tuple(ses["net"])], ses, per_search_timeout=ctx.scale(60.0, 300.0))
    with ThreadPoolExecutor(max_workers=NCPU) as ex:
        results = list(ex.map(one, sessions))
    # an engine that did not answer in time is re-run alone (a loaded machine must not look like a hang/crash)
    for k, (ses, res) in enumerate(zip(sessions, results)):
        if any(r["status"] != "ok" for r in res):
            ctx.count("finder_sessions_rerun_after_timeout_or_crash")
            ctx.count("finder_first_run_status_" + [r["status"] for r in res if r["status"] != "ok"][0].replace(" ", "_"))
            results[k] = fd.run_session(engines[tuple(ses["net"])], ses, per_search_timeout=ctx.scale(180.0, 600.0))
    ctx.log("finder: %d sessions run in %.1fs" % (len(sessions), time.time() - t0))
    found = []
    for ses, res in zip(sessions, results):
        for i, r in enumerate(res):
            if i >= len(ses["steps"]):
                break
            step = ses["steps"][i]
            ctx.evaluated()
            ctx.count("search_total")
            ctx.count("pos_" + step["poskind"])
            ctx.count("limit_" + step["limit"])
            ctx.count("net_%s%d" % tuple(ses["net"]))
            ctx.count("searchmoves_" + step["smkind"])
            for k in ("Hash", "Threads", "MultiPV"):
                ctx.count("%s_%s" % (k, step["opts_now"].get(k, fd.DEFAULTS[k])))
            if int(step["opts_now"].get("Strength", 1000)) < 1000:
                ctx.count("strength_reduced")
            if int(step["opts_now"].get("Strength", 1000)) < 200:
                ctx.count("strength_below_200_subset")
            if str(step["opts_now"].get("UCI_LimitStrength", "false")) == "true":
                ctx.count("limit_strength")
            if int(step["opts_now"].get("MaxNPS", 0)) > 0:
                ctx.count("maxnps")
            if str(step["opts_now"].get("UCI_AnalyseMode", "false")) == "true":
                ctx.count("analyse_mode")
            if str(step["opts_now"].get("UseNullMove", "true")) == "false":
                ctx.count("nullmove_off")
            if int(step["opts_now"].get("Contempt", 0)) != 0:
                ctx.count("contempt_nonzero")
            lines = r["lines"]
            npv = sum(1 for l in lines if " pv " in l)
            ctx.count("info_pv_lines_checked", npv)
            ctx.count("pv_moves_checked", sum(len(l.split(" pv ", 1)[1].split()) for l in lines if " pv " in l))
            ctx.count("multipv_lines", sum(1 for l in lines if " multipv " in l))
            ctx.count("mate_score_lines", sum(1 for l in lines if " score mate " in l))
            ctx.count("bound_lines", sum(1 for l in lines if "bound " in l))
            bm = [l for l in lines if l.startswith("bestmove")]
            if bm and bm[0].split()[1:2] == ["0000"]:
                ctx.count("bestmove_null")
            if bm and " ponder " in bm[0]:
                ctx.count("ponder_moves_checked")
            nleg = len(ch.legal_uci(ch.parse_fen(step["fen"])))
            if nleg >= 2 and npv >= 1:
                ctx.nontrivial(step["fen"] + "|" + step["go"] + "|" + " ".join(step["searchmoves"]) + "|" +
                               json.dumps(step["opts_now"], sort_keys=True))
            ctx.sample({"position": step["position"][:120], "go": step["go"], "searchmoves": step["searchmoves"][:5],
                        "options": step["opts_now"], "net": list(ses["net"]),
                        "answer": bm[0] if bm else None, "info_pv_lines": npv}, limit=5)
            if r["status"] != "ok":
                if r["status"].startswith("crash"):
                    # the engine process died during this search, also when re-run alone: no well-formed answer
                    found.append((ses, i, ("engine-crash", r["status"]), lines))
                else:
                    # no answer within the time-out although the process is alive: liveness is C10's subject and a
                    # loaded machine looks the same; recorded, not a C03 violation
                    ctx.count("finder_searches_unanswered_within_timeout")
                    ctx.log("no answer within the time-out (%s): %s | %s" % (r["status"], step["position"][:80], step["go"]))
                break
            viol = fd.check_search(step, lines)
            seen = set()
            for v in viol:
                if v[0] in seen:
                    continue
                seen.add(v[0])
                found.append((ses, i, v, lines))
    return found


def report_found(ctx, found, engines):
    if not hasattr(ctx, "c03_seen_keys"):
        ctx.c03_seen_keys = set()
    done_keys = ctx.c03_seen_keys
    budget = 6
    per_kind = {}
    for ses, i, v, lines in found:
        step = ses["steps"][i]
        per_kind[v[0]] = per_kind.get(v[0], 0) + 1
        ctx.count("finder_violation_" + v[0])
        if per_kind[v[0]] > 2:          # at most two replays per kind of violation; all are counted
            continue
        exe = engines[tuple(ses["net"])]
        kkey = fd.classify_known(step, v, ses["steps"][:i])
        if kkey and kkey in done_keys:
            continue
        ses2, i2 = ses, i
        if budget > 0 and not (kkey and ctx.kf.match(ctx.prop, kkey)):
            budget -= 1
            try:
                ses2, i2 = minimise(exe, ses, i, v[0])
            except Exception as ex:     # minimisation is best effort
                ctx.log("minimise failed: %s" % ex)
        st2 = ses2["steps"][i2]
        key = kkey or ("%s|%s|%s|%s|%s|net=%s%d" % (v[0], st2["fen"].replace(" ", "_"), st2["go"].replace(" ", "_"),
                                                     ",".join(st2["searchmoves"]),
                                                     ",".join("%s=%s" % kv for kv in sorted(st2["opts_now"].items())),
                                                     ses2["net"][0], ses2["net"][1]))
        done_keys.add(key)
        rep = {"what": v[0], "detail": v[1], "net": list(ses2["net"]), "script": replay_script(ses2, i2),
               "root_fen": st2["fen"], "legal_moves_by_oracle": sorted(ch.legal_uci(ch.parse_fen(st2["fen"]))),
               "searchmoves": st2["searchmoves"], "options_in_force": st2["opts_now"],
               "engine_output_tail": lines[-25:], "steps_before_minimisation": i + 1}
        ctx.violation("engine answer violates C03: %s (%s)" % (v[0], v[1][:200]), rep, key=key)


# ------------------------------------------------------------------------------------------------
# correspondence: extracted model vs the real functions (harness/root_harness.cpp)
# ------------------------------------------------------------------------------------------------
HARNESS_SRCS = ("app/texel/uciprotocol.cpp", "app/texel/enginecontrol.cpp")
KNOWN_PONDER_KEY = "EngineControl::startPonder:searchMoves-not-updated"


def gen_start_case(rng):
    p = fd.gen_position(rng)
    cmd = p["cmd"]
    if cmd.startswith("position startpos"):
        fen = ch.START_FEN
        moves = cmd.split(" moves ", 1)[1] if " moves " in cmd else ""
    else:
        body = cmd[len("position fen "):]
        fen, _, moves = body.partition(" moves ")
    opts = {}
    lim = fd.gen_limit(rng, opts, False, 32)
    go = lim["go"][3:].replace("ponder ", "")
    ponder = lim["kind"] == "ponder" or rng.random() < 0.08
    sm, smkind = fd.gen_searchmoves(rng, p["pos"])
    if sm:
        go += " searchmoves " + " ".join(sm)
    r = rng.random()
    strength = (rng.choice([0, 1, 10, 50, 100, 150, 199]) if r < 0.5 else rng.choice([200, 500, 999, 1000]) if r < 0.8
                else rng.randint(0, 1000))
    seed = rng.choice([0, 1, rng.getrandbits(64), rng.getrandbits(64), rng.getrandbits(32)])
    return dict(fen=fen, moves=moves, go=go, strength=strength, seed=seed, ponder=ponder, sm=sm, smkind=smkind,
                pos=p["pos"], poskind=p["kind"])


def start_line(c):
    return "START|%s|%s|%s|%d|%d|%d" % (c["fen"], c["moves"], c["go"], c["strength"], c["seed"], 1 if c["ponder"] else 0)


def parse_kv(line):
    d = {}
    for part in line.split("|"):
        k, _, v = part.partition("=")
        d[k] = v
    return d


def model_start_line(c, h):
    """Driver input for a START case, built from the harness' observations of the oracles (legal moves in MoveGen
    order, limits from computeTimeLimit, Zobrist hash, scoreMoveList scores)."""
    if c["ponder"]:
        minT, maxT, maxDepth, maxNodes = -1, -1, -1, -1          # startPonder: startThread(-1, -1, -1, -1, -1, ...)
        infinite = False
    else:
        minT, maxT, maxDepth, maxNodes = [int(x) for x in h["in"].split(",")]
        infinite = maxT < 0 and maxDepth < 0 and maxNodes < 0     # EngineControl::startSearch
    rnd0 = int(h["zh"]) ^ c["seed"]
    return "S|%s|%s|%d|%d|%d|%d|%d|%d|%d|%d|%s" % (h["legal"], " ".join(c["sm"]), 1 if infinite else 0,
                                                    1 if c["ponder"] else 0, minT, maxT, maxDepth, maxNodes,
                                                    c["strength"], rnd0, h["ord"])


def gen_notify_case(rng):
    n = rng.randint(1, 8)
    pool = ["e2e4", "d2d4", "g1f3", "c2c4", "b1c3", "a7a8q", "e1g1", "h2h3", "f2f4", "a2a3"]
    mvs = rng.sample(pool, n)
    base = rng.choice([0, 0, 30, -200, 15990, -15990, 16001, -16001, 31000, -31000, 31990, -31990])
    ents = []
    for m in mvs:
        r = rng.random()
        sc = (base + rng.randint(-40, 40)) if r < 0.7 else rng.choice([16000, 16001, -16000, -16001, 31998, 31997, -31997,
                                                                          -31996, 0, 1, -1, 32000, -32000, 31999, -31998])
        depth = rng.choice([0, 0, 1, 2, 5, 5, 9])
        a = sc + rng.choice([-30, -1, 0, 1, 30, -32000])
        b = sc + rng.choice([-30, -1, 0, 1, 30, 32000])
        pv = [m] + rng.sample(["e7e5", "g8f6", "d7d5", "b8c6"], rng.randint(0, 3))
        ents.append("%s,%d,%d,%d,%d,%s" % (m, sc, depth, a, b, " ".join(pv)))
    maxpv = rng.randint(1, n)
    mi = rng.randrange(n)
    return "NOTIFY|%d|%d|%s" % (maxpv, mi, ";".join(ents))


def gen_pv_case(rng):
    """Root + a line of legal moves with back-and-forth shuffles (repetitions), table entries along the line, optional
    gap, optional garbage entry at the end."""
    for _ in range(50):
        _, root = fd.random_game(rng, rng.choice([0, 4, 10, 30, 60]))
        lm = ch.legal_moves(root)
        if lm:
            break
    pos = root
    line = []
    for i in range(rng.randint(1, 14)):
        lm = ch.legal_moves(pos)
        if not lm:
            break
        m = None
        if len(line) >= 2 and rng.random() < 0.6:
            # undo the mover's previous move if that is legal: produces repetitions
            pm = ch.parse_uci(line[-2])
            back = (pm[1], pm[0], "")
            if back in lm and not pm[2]:
                m = back
        if m is None:
            quiet = [x for x in lm if pos[0][x[1]] == "." and pos[0][x[0]].upper() in "NBRQK"]
            m = rng.choice(quiet) if quiet and rng.random() < 0.7 else rng.choice(lm)
        line.append(ch.uci(m))
        pos = ch.make(pos, m)
    first, rest = line[0], line[1:]
    ents = []
    ply = 1
    gap = rng.randrange(len(rest)) if rest and rng.random() < 0.2 else -1
    for i, m in enumerate(rest):
        if i == gap:
            break
        ents.append("%d:%s" % (ply, m))
        ply += 1
    kind = "line"
    if gap < 0 and rng.random() < 0.5:
        g = rng.choice(["a1h8", "e2e5", "h7h8q", "b1b8", "a1a2", rng.choice(line)])
        ents.append("%d:%s:g" % (ply, g))
        kind = "garbage"
    return dict(line="PV|%s|%s|%s" % (ch.to_fen(root), first, " ".join(ents)), root=root, first=first, kind=kind,
                nrep=len(line) - len(set(line)))


def run_lines(exe, lines, prefixes, timeout=600):
    rc, out, err = sh([exe], input="\n".join(lines) + "\n", timeout=timeout)
    res = [l for l in out.split("\n") if l.startswith(prefixes)]
    return rc, res, err


def correspond(ctx, cpp, ml):
    rng = ctx.rng
    dis = []       # (kind, harness command(s), harness output, model output, note)
    # ---- corpus first ----
    corpus = os.path.join(VERIF, "corpus", "c03.txt")
    corpus_lines = []
    if os.path.exists(corpus):
        corpus_lines = [l.strip() for l in open(corpus) if l.strip() and not l.startswith("#")]
    # ---- START: startThread filtering + limits + getRootMoves ----
    ncase = ctx.scale(700, 20000)
    cases = [gen_start_case(rng) for _ in range(ncase)]
    chunks = [cases[i:i + 100] for i in range(0, len(cases), 100)]

    def do_chunk(chunk):
        rc, outs, err = run_lines(cpp, [start_line(c) for c in chunk], ("legal=", "ERR"))
        if rc != 0 or len(outs) != len(chunk):
            return [("START-harness-failure", [start_line(c) for c in chunk][:len(outs) + 1][-2:], "rc=%s" % rc, err[-500:], "")]
        hs = [parse_kv(o) for o in outs]
        mlines = []
        for c, h, o in zip(chunk, hs, outs):
            if o.startswith("ERR"):
                mlines.append("S|||0|0|-1|-1|-1|-1|1000|0|")
            else:
                mlines.append(model_start_line(c, h))
        rc2, mouts, err2 = run_lines(ml, mlines, ("moves=", "ERR"))
        if rc2 != 0 or len(mouts) != len(chunk):
            return [("START-model-failure", mlines[:3], "rc=%s" % rc2, err2[-500:], "")]
        out = []
        stale = []
        for c, h, o, mo, mline in zip(chunk, hs, outs, mouts, mlines):
            if o.startswith("ERR"):
                out.append(("START-harness-error", start_line(c), o, "", ""))
                continue
            m = parse_kv(mo)
            rec = dict(case=c, h=h, m=m)
            same = (h["moves"] == m["moves"] and h["one"] == m["one"] and h["out"] == m["out"] and h["root"] == m["root"])
            note = ""
            if not same and c["ponder"]:
                # explained by the stale-searchmoves defect of startPonder?
                legal = h["legal"].split()
                exp = [x for x in legal if x in stale] if stale else legal
                if h["moves"].split() == exp and stale != c["sm"]:
                    note = KNOWN_PONDER_KEY
            out.append(("START-ok" if same else "START-diff", start_line(c), o, mo, note, rec,
                        start_line(dict(c, ponder=False, sm=stale, go="depth 1" + (" searchmoves " + " ".join(stale) if stale else ""))) if note else ""))
            if not c["ponder"]:
                stale = c["sm"]
        return out
    with ThreadPoolExecutor(max_workers=NCPU) as ex:
        results = list(ex.map(do_chunk, chunks))
    for res in results:
        for r in res:
            kind = r[0]
            if kind == "START-ok" or kind == "START-diff":
                c, h, m = r[5]["case"], r[5]["h"], r[5]["m"]
                ctx.evaluated()
                ctx.count("corr_start_cases")
                legal = h["legal"].split()
                # the Python oracle against MoveGen on every root (supports the finder's oracle)
                if set(legal) != set(ch.legal_uci(c["pos"])) and not c["moves"] == "__":
                    dis.append(("ORACLE-vs-MoveGen", r[1], h["legal"], " ".join(sorted(ch.legal_uci(c["pos"]))), ""))
                ctx.count("corr_start_oracle_roots_agree")
                nm, nr = len(h["moves"].split()), (0 if h["root"] == "-" else len(h["root"].split()))
                if c["sm"]:
                    ctx.count("corr_start_with_searchmoves")
                if nm == 0:
                    ctx.count("corr_start_nothing_to_search")
                if h["one"] == "1":
                    ctx.count("corr_start_onePossibleMove")
                if h["in"] != h["out"] + "," + h["in"].split(",")[3] and not c["ponder"]:
                    ctx.count("corr_start_limits_rewritten")
                if 0 < nr < nm:
                    ctx.count("corr_start_reduced_subset")
                if nr == 1 and nm > 1:
                    ctx.count("corr_start_subset_only_forced_move")
                if c["strength"] < 200:
                    ctx.count("corr_start_strength_below_200")
                if c["ponder"]:
                    ctx.count("corr_start_ponder")
                if nm >= 2:
                    ctx.nontrivial("S|" + r[1])
                ctx.sample({"harness_cmd": r[1][:200], "harness": r[2][-160:], "model": r[3][-160:]}, limit=8)
            if kind != "START-ok":
                dis.append(r[:5] + ((r[6],) if len(r) > 6 else ("",)))
    # ---- NOTIFY: report selection + score formatting through the real listener ----
    nn = ctx.scale(3000, 100000)
    nlines = [l for l in corpus_lines if l.startswith("NOTIFY")] + [gen_notify_case(rng) for _ in range(nn)]
    rc, houts, err = run_lines(cpp, nlines, ("lines=", "ERR"))
    rc2, mouts, err2 = run_lines(ml, ["N" + l[len("NOTIFY"):] for l in nlines], ("lines=", "ERR"))
    if rc != 0 or rc2 != 0 or len(houts) != len(nlines) or len(mouts) != len(nlines):
        dis.append(("NOTIFY-failure", nlines[min(len(houts), len(mouts), len(nlines) - 1)], "rc=%s/%s" % (rc, rc2), (err + err2)[-400:], ""))
    else:
        for l, a, b in zip(nlines, houts, mouts):
            ctx.evaluated()
            ctx.count("corr_notify_cases")
            k = a.count("info depth")
            ctx.count("corr_notify_lines", k)
            if " mate " in a:
                ctx.count("corr_notify_with_mate_score")
            if "bound" in a:
                ctx.count("corr_notify_with_bound")
            if k >= 2:
                ctx.nontrivial(l)
            if a != b:
                dis.append(("NOTIFY-diff", l, a, b, ""))
        ctx.sample({"harness_cmd": nlines[-1], "harness": houts[-1], "model": mouts[-1]}, limit=8)
    # ---- PV: extractPVMoves + getPonderMove on a hand-filled table ----
    npv = ctx.scale(500, 20000)
    pcs = [gen_pv_case(rng) for _ in range(npv)]
    plines = [c["line"] for c in pcs]
    rc, houts, err = run_lines(cpp, plines, ("pv=", "ERR"))
    if rc != 0 or len(houts) != len(plines):
        dis.append(("PV-harness-failure", plines[min(len(houts), len(plines) - 1)], "rc=%s" % rc, err[-400:], ""))
    else:
        hs = [parse_kv(o) for o in houts]
        mlines = ["P|%s|%s|%s" % (c["first"], h.get("rootlegal", ""), h.get("chain", "")) for c, h in zip(pcs, hs)]
        rc2, mouts, err2 = run_lines(ml, mlines, ("pv=", "ERR"))
        if rc2 != 0 or len(mouts) != len(plines):
            dis.append(("PV-model-failure", mlines[min(len(mouts), len(mlines) - 1)][:300], "rc=%s" % rc2, err2[-400:], ""))
        else:
            for c, h, o, mo in zip(pcs, hs, houts, mouts):
                ctx.evaluated()
                ctx.count("corr_pv_cases")
                m = parse_kv(mo)
                pv = h["pv"].split()
                ctx.count("corr_pv_moves", len(pv))
                if c["kind"] == "garbage":
                    ctx.count("corr_pv_garbage_entry")
                if c["nrep"]:
                    ctx.count("corr_pv_lines_with_repeated_moves")
                if h["ponder"] != "0000":
                    ctx.count("corr_pv_ponder_found")
                if len(pv) >= 3:
                    ctx.nontrivial(c["line"])
                # specification side: the real PV must be playable by the independent oracle, the ponder move legal
                idx, _ = ch.play_line(c["root"], pv)
                if idx >= 0:
                    dis.append(("PV-illegal-by-oracle", c["line"], o[:200], "move %d" % (idx + 1), "SPEC"))
                if h["ponder"] != "0000":
                    after = ch.make(c["root"], ch.parse_uci(c["first"]))
                    if h["ponder"] not in ch.legal_uci(after):
                        dis.append(("PONDER-illegal-by-oracle", c["line"], o[:200], h["ponder"], "SPEC"))
                if h["pv"] != m.get("pv") or h["ponder"] != m.get("ponder"):
                    dis.append(("PV-diff", c["line"], "pv=%s|ponder=%s" % (h["pv"], h["ponder"]), mo, ""))
            ctx.sample({"harness_cmd": plines[-1], "harness": houts[-1][:200], "model": mouts[-1]}, limit=8)
    return dis


# ------------------------------------------------------------------------------------------------
def run(ctx):
    ctx.rule = ("finder: sessions of 5 searches on one engine process; positions = random legal games (0..120 plies, "
                "startpos+moves or FEN+moves), checkmate/stalemate roots, single-legal-move roots, half-move clock "
                "97..101/150, random <=4-man endings; limits = depth/nodes/movetime/clock/mate/infinite+stop/ponder+"
                "ponderhit|stop/combinations; options = Hash, Threads, MultiPV, Strength, UCI_LimitStrength+UCI_Elo, "
                "MaxNPS, UseNullMove, UCI_AnalyseMode, Contempt, AnalyzeContempt, searchmoves (subset, with duplicates "
                "and illegal moves, illegal only, all); 4 synthetic nets; non-trivial = root with >= 2 legal moves and "
                ">= 1 PV line checked, distinct by (root FEN, go, searchmoves, options).  correspondence: START = "
                "EngineControl::startSearch/startPonder + Search::getRootMoves on the same position/limit/searchmoves "
                "generators with random strength and seed (non-trivial: >= 2 moves to search); NOTIFY = random MoveInfo "
                "vectors (1..8 entries, scores around 0 / the win-score threshold / mate scores, depth 0 entries, "
                "windows around the score) through Search::notifyPV + SearchListener (non-trivial: >= 2 lines); PV = "
                "random roots with a table-filled line of 1..14 moves containing back-and-forth shuffles, gaps and "
                "garbage entries through TranspositionTable::extractPVMoves and EngineControl::getPonderMove "
                "(non-trivial: PV of >= 3 moves)")
    ctx.trusted_base = ["Coq 8.16.1 kernel (coqc, vm_compute)", "tx/c03_consts.py (regex translator of constants.hpp/"
                        "parameters.hpp/search.cpp arithmetic into coq/gen/RootConsts.v)",
                        "extraction (ExtrOcamlBasic only) + OCaml 4.13 + drivers/root_driver.ml",
                        "harness/root_harness.cpp (in-process EngineControl with the search thread not started)",
                        "props/c03_chess.py (independent legal-move oracle of the finder; cross-checked against MoveGen on "
                        "every START root)",
                        "hand-written model coq/Root/Root.v tied by correspondence (pure pieces) and by the finder "
                        "(whole engine vs the theorems' conclusions)"]
    ctx.assumptions = ["the recursive search, evaluation, clock, helper threads and tablebase contents are oracles: the "
                       "theorems hold for all their values, nothing is claimed about the values themselves",
                       "model = code for startThread filtering/limits, getRootMoves, notifyPV/score formatting, "
                       "extractPVMoves, getPonderMove is established by differential testing, not by proof",
                       "the root loop of iterativeDeepening (aspiration/re-search/insertion/sorting) is tied to the code "
                       "only by the UCI-level finder unless the optional trace hook hooks/h3-root-trace.patch is applied",
                       "the floating-point test rnd < pIncl of getRootMoves is modelled by exact rational comparison "
                       "(argument in Root.v; checked by the START correspondence over random seeds)",
                       "OwnBook is off (the book move path of EngineMainThread::doSearch bypasses the searchmoves filter; "
                       "it is outside C03's option grid and the tree's book is empty)",
                       "legal moves are pairwise distinct and never a1a1 (C01)"]
    thorough = not ctx.quick
    # (1) translate
    import importlib
    txmod = importlib.import_module("tx.c03_consts")
    tie_broken = None
    try:
        txmod.generate(REPO, VERIF)
    except Exception as ex:      # translator refusal = broken tie
        tie_broken = str(ex)
        ctx.log("translator: %s" % tie_broken)
    # (2) prove
    if tie_broken is None:
        ok, info = coqbuild.prove(ctx, PROP_FILE, timeout=ctx.scale(900, 3600))
    else:
        ok, info = False, {"translator": tie_broken}
        thms, _ = coqbuild.theorems_in(PROP_FILE)
        for t in thms:
            ctx.obligation(t, PROP_FILE, discharged=False)
    proof_broken = not ok
    if proof_broken:
        ctx.log("proof stage broken: %s" % json.dumps(info)[:600])
    # (3) build
    nets = [("material", 1), ("random", 2), ("random", 3), ("extreme", 4)]
    engines = {n: cbuild.build_engine(net_kind=n[0], net_seed=n[1]) for n in nets}
    cpp = cbuild.build_harness("root_harness", with_util=False, netfile=cbuild.make_net("material", 1), extra_srcs=HARNESS_SRCS)
    dis = []
    corr_note = None
    try:
        ml = coqbuild.extract("ExtractRoot.v", "root_driver.ml", "root_driver")
        # (4) correspond
        t0 = time.time()
        dis = correspond(ctx, cpp, ml)
        ctx.log("correspondence: %d cases in %.1fs, %d disagreements" % (ctx.evaluations, time.time() - t0, len(dis)))
    except Exception as ex:
        if not proof_broken:
            raise
        corr_note = "model could not be extracted/built: %s" % str(ex)[:300]
        ctx.log(corr_note)
    ctx.traces_validated = ctx.evaluations
    # (5) trace correspondence (needs the optional hook)
    trace_dis = trace_correspond(ctx, engines, ml) if (not proof_broken or corr_note is None) and corr_note is None else []
    # (F) finder: always
    nviol0 = len(ctx.violations)
    found = finder(ctx, ctx.scale(40, 1000), 5, thorough, engines)
    report_found(ctx, found, engines)
    concrete = len(ctx.violations) - nviol0          # new (not known) concrete failing inputs
    # classify correspondence disagreements
    corr_broken = False
    first_dis = None
    seen_keys = getattr(ctx, "c03_seen_keys", set())
    for d in dis + trace_dis:
        kind, cmd, hout, mout, note = d[:5]
        if note == KNOWN_PONDER_KEY:
            ctx.count("corr_start_ponder_uses_stale_searchmoves")
            if KNOWN_PONDER_KEY in seen_keys:
                continue
            seen_keys.add(KNOWN_PONDER_KEY)
            ctx.violation("startPonder searches with stale searchmoves: moves handed to the search differ from legal ∩ requested",
                          {"harness_commands": [d[5], cmd] if len(d) > 5 and d[5] else [cmd], "harness": hout, "model": mout},
                          key=KNOWN_PONDER_KEY)
            continue
        if note == "SPEC" or kind == "ORACLE-vs-MoveGen":
            ctx.violation("%s: real function output contradicts the independent legal-move oracle" % kind,
                          {"harness_command": cmd, "harness": hout, "oracle": mout}, key="%s|%s" % (kind, cmd.replace(" ", "_")))
            concrete += 1
            continue
        corr_broken = True
        if first_dis is None:
            first_dis = {"kind": kind, "harness_command": cmd, "harness": hout, "model": mout}
    if corr_note:
        corr_broken = True
    if not proof_broken and not corr_broken:
        return
    if proof_broken or corr_broken:
        # finder pass aimed at the broken part: more volume on the same grid
        nviol1 = len(ctx.violations)
        extra = finder(ctx, ctx.scale(32, 300), 5, thorough, engines)
        report_found(ctx, extra, engines)
        concrete += len(ctx.violations) - nviol1
    if True:
        what = []
        if proof_broken:
            what.append("theorem(s) in %s no longer check (or the translator refused)" % PROP_FILE)
        if corr_broken:
            what.append("correspondence model/implementation broken (%d disagreements)" % len([d for d in dis + trace_dis if not d[4]]))
        rep = {"broken": what, "proof_info": info if proof_broken else None, "first_disagreement": first_dis,
               "corr_note": corr_note, "disagreement_kinds": sorted(set(d[0] for d in dis + trace_dis))}
        # a concrete failing input against the specification has been reported separately if one was found
        ctx.violation("; ".join(what), rep, no_failing_input=(concrete == 0),
                      key=None if concrete == 0 else "broken-tie:" + ",".join(sorted(set(d[0] for d in dis + trace_dis))))


def trace_correspond(ctx, engines, ml):
    """Trace correspondence of the root loop; needs the add-only hook hooks/h3-root-trace.patch in the tree."""
    src = open(os.path.join(REPO, "lib", "texellib", "search.cpp")).read()
    if "verifRootTrace" not in src:
        ctx.notes["root_trace"] = ("hook hooks/h3-root-trace.patch not applied in %s: the root loop model is tied to the code by "
                                   "the UCI-level finder only on this run" % REPO)
        return []
    return trace_run(ctx, engines, ml)


def strip_info(line):
    t = line.split()
    out = []
    i = 0
    while i < len(t):
        if t[i] in ("time", "nodes", "nps", "tbhits") and i + 1 < len(t):
            i += 2
            continue
        out.append(t[i])
        i += 1
    return " ".join(out)


def parse_trace(txt):
    """Trace file of one search -> (T command for the driver, recorded best move) or None when nothing was searched."""
    recs = [l.split() for l in txt.split("\n") if l.startswith("RT ")]
    if not recs or recs[0][1] != "BEGIN":
        return None
    kv = dict(x.split("=", 1) for x in recs[0][2:] if "=" in x and not x.startswith("moves="))
    i = recs[0].index("moves=") if "moves=" in recs[0] else None
    roots = recs[0][i + 1:] if i is not None else []
    events = []
    quiet = set()
    pending = None
    best = None
    for r in recs[1:]:
        k = r[1]
        if k == "SEARCH":
            d = dict(x.split("=", 1) for x in r[2:])
            pending = d
            if d["k"] == "0" and d["quiet"] == "1":
                quiet.add(d["move"])
        elif k == "RET":
            d = dict(x.split("=", 1) for x in r[2:])
            events.append(dict(score=int(d["score"]), nodes=int(d["nodes"]) - int(pending["nodes0"]), tm=0, ti=0,
                               pv=[pending["move"]], move=pending["move"]))
            pending = None
        elif k == "PV":
            events[-1]["pv"] = r[2:]
        elif k == "TM":
            events[-1]["tm"] = int(r[2])
        elif k == "TI":
            events[-1]["ti"] = 1
        elif k == "STOP":
            events.append(None)
        elif k == "END":
            best = r[2].split("=", 1)[1]
    ev = ";".join("X" if e is None else "R,%d,%d,%d,%d,%s" % (e["score"], e["nodes"], e["tm"], e["ti"], " ".join(e["pv"]))
                  for e in events)
    cmd = "T|%s|%s|%s|%s|%s|%s|%s" % (kv["maxPV"], kv["maxDepth"], kv["noTime"], kv["onlyExact"], " ".join(roots),
                                       " ".join(sorted(quiet)), ev)
    return cmd, best, len(events)


def trace_run(ctx, engines, ml):
    """Each traced search runs in its own engine process with TEXEL_VERIF_ROOTTRACE set; the recorded oracle stream is
    replayed through the extracted iterativeDeepeningFrom and must reproduce the engine's info lines and best move."""
    import shutil
    import tempfile
    rng = ctx.rng
    n = ctx.scale(100, 3000)
    tmp = tempfile.mkdtemp(prefix="c03-trace-")
    jobs = []
    for i in range(n):
        for _ in range(20):
            ses = fd.gen_session(rng, not ctx.quick, 1)
            st = ses["steps"][0]
            legal = ch.legal_uci(ch.parse_fen(st["fen"]))
            # keep searches that have something to search (the engine ignores searchmoves of `go ponder`: known finding)
            if legal and (not st["searchmoves"] or any(m in legal for m in st["searchmoves"]) or st["limit"] == "ponder"):
                break
        jobs.append((i, ses))

    def one(job):
        i, ses = job
        tf = os.path.join(tmp, "t%d.txt" % i)
        res = fd.run_session(engines[tuple(ses["net"])], ses, per_search_timeout=60.0, env={"TEXEL_VERIF_ROOTTRACE": tf})
        txt = open(tf).read() if os.path.exists(tf) else ""
        return res, txt
    try:
        with ThreadPoolExecutor(max_workers=NCPU) as ex:
            outs = list(ex.map(one, jobs))
    finally:
        shutil.rmtree(tmp, ignore_errors=True)
    dis = []
    cmds = []
    meta = []
    for (i, ses), (res, txt) in zip(jobs, outs):
        if not res or res[0]["status"] != "ok":
            continue
        pt = parse_trace(txt)
        lines = res[0]["lines"]
        if pt is None:
            ctx.count("trace_nothing_searched")
            continue
        cmd, best, nev = pt
        eng_lines = [strip_info(l) for l in lines if l.startswith("info") and " pv " in l]
        bm = [l for l in lines if l.startswith("bestmove")]
        cmds.append(cmd)
        meta.append((ses, eng_lines, bm[0].split()[1] if bm else "?", best, nev))
    if cmds:
        rc, mouts, err = run_lines(ml, cmds, ("best=", "FUEL", "ERR"), timeout=1200)
        if rc != 0 or len(mouts) != len(cmds):
            dis.append(("TRACE-model-failure", cmds[min(len(mouts), len(cmds) - 1)][:400], "rc=%s" % rc, err[-300:], ""))
        else:
            for cmd, (ses, eng_lines, bm, best, nev), mo in zip(cmds, meta, mouts):
                ctx.evaluated()
                ctx.count("trace_searches_replayed")
                ctx.count("trace_events", nev)
                ctx.count("trace_info_lines", len(eng_lines))
                st = ses["steps"][0]
                script = [c for c in fd.step_commands(st)]
                m = parse_kv(mo) if mo.startswith("best=") else {}
                want = " / ".join(eng_lines)
                if nev >= 10 and len(eng_lines) >= 3:
                    ctx.nontrivial("T|" + st["fen"] + "|" + st["go"] + "|" + json.dumps(st["opts_now"], sort_keys=True))
                if not m or m.get("best") != bm or m.get("lines", "") != want or m.get("mismatch") or bm != best:
                    got = m.get("lines", mo[:200])
                    # first differing line
                    a, b = want.split(" / "), got.split(" / ")
                    k = next((j for j in range(min(len(a), len(b))) if a[j] != b[j]), min(len(a), len(b)))
                    dis.append(("TRACE-diff", json.dumps({"net": list(ses["net"]), "script": script}),
                                "bestmove %s; line %d: %s" % (bm, k, a[k] if k < len(a) else "<end>"),
                                "best %s; mismatch=%s; line %d: %s" % (m.get("best"), m.get("mismatch"), k, b[k] if k < len(b) else "<end>"),
                                ""))
            ctx.sample({"traced_search": meta[-1][0]["steps"][0]["go"], "events": meta[-1][4], "engine_lines": len(meta[-1][1]),
                        "model": mouts[-1][:160]}, limit=9)
    ctx.notes["root_trace"] = "hook present: %d searches traced and replayed through the extracted root loop" % len(cmds)
    return dis


def replay(ctx, body):
    r = body.get("replay", {})
    print("# reported:", body.get("what"))
    if "script" in r:
        # finder violation: the UCI script against the real engine
        net = tuple(r.get("net", ("material", 1)))
        exe = cbuild.build_engine(net_kind=net[0], net_seed=int(net[1]))
        cmds = [tuple(c) if isinstance(c, list) else c for c in r["script"]]
        print("# engine: %s (net %s %s)" % (exe, net[0], net[1]))
        for c in cmds:
            print("#   ", c)
        out = run_script(exe, cmds)
        for l in out:
            print(l)
        print("# root:", r.get("root_fen"))
        print("# legal moves by the oracle:", " ".join(r.get("legal_moves_by_oracle", [])))
        print("# searchmoves:", r.get("searchmoves"))
        return
    # correspondence disagreement / function-level violation: harness command(s) against the real functions
    cmds = r.get("harness_commands") or ([r["harness_command"]] if r.get("harness_command") else [])
    fdis = r.get("first_disagreement") or {}
    if not cmds and fdis.get("harness_command"):
        cmds = [fdis["harness_command"]]
    if cmds and cmds[0].startswith("{"):
        # trace disagreement: the command is a JSON object with the UCI script
        j = json.loads(cmds[0])
        net = tuple(j["net"])
        exe = cbuild.build_engine(net_kind=net[0], net_seed=int(net[1]))
        script = ["uci"] + [tuple(c) if isinstance(c, list) else c for c in j["script"]] + [("wait", "bestmove")]
        for l in run_script(exe, script):
            print(l)
        print("# model said:", fdis.get("model"))
        return
    if cmds:
        cpp = cbuild.build_harness("root_harness", with_util=False, netfile=cbuild.make_net("material", 1), extra_srcs=HARNESS_SRCS)
        rc, out, err = sh([cpp], input="\n".join(cmds) + "\n", timeout=120)
        for c in cmds:
            print("# harness command:", c)
        print(out.strip())
        print("# recorded: harness=%s" % (r.get("harness") or fdis.get("harness")))
        print("# recorded: model/oracle=%s" % (r.get("model") or r.get("oracle") or fdis.get("model")))
    else:
        print(json.dumps(r, indent=1)[:4000])
