"""C06 — time limits are honoured (DESIGN.md section 6, C06).

Stages: translate (tx/c06_consts.py -> coq/gen/TimeParams.v) -> prove (Properties_C06.v) ->
build (harness/timemgmt_harness.cpp against the current tree, extracted model + OCaml driver)
-> correspond (allocation tuples limit by limit through computeTimeLimit / startSearch /
startPonder / ponderHit / stopSearch; Search::shouldStop decisions) -> end-to-end virtual-clock
runs of the engine binary when hook H1/H2 is present in the tree -> finder (implementation vs
the inequality itself) when anything above breaks.
"""
import importlib.util
import json
import math
import os
import re
import shutil
import struct
import subprocess
import threading
import time
from concurrent.futures import ThreadPoolExecutor

from vlib import cbuild, coqbuild
from vlib.common import CACHE, NCPU, REPO, VERIF, sh, sha_files

PROP_FILE = "Properties_C06.v"
LITERAL_KEY = "literal-budget:clock*9/10<BufferTime"
INT_MAX = 2 ** 31 - 1

# stdlib axioms behind Coq's primitive floats / Flocq / Reals (see the report; listed exactly as
# Print Assumptions names them)
# Exactly what Print Assumptions reports for the theorems of Properties_C06.v:
#  - Coq.Reals (classical reals used by Flocq): sig_forall_dec, sig_not_dec, classic, functional_extensionality_dep
#  - Coq.Floats.FloatAxioms: the specification of the primitive binary64 operations (*_spec, Prim2SF_valid, ...)
#  - the primitive float / 63-bit integer types and operations themselves (reported as axioms because they are
#    kernel primitives) and the Uint63 specification axioms used by PrimFloat.of_uint63 / normfr_mantissa
ALLOWED_AXIOMS = tuple("""
ClassicalDedekindReals.sig_forall_dec ClassicalDedekindReals.sig_not_dec Classical_Prop.classic
FunctionalExtensionality.functional_extensionality_dep
Prim2SF_SF2Prim Prim2SF_valid SF2Prim_Prim2SF abs_spec add_spec div_spec eqb_spec leb_spec ltb_spec mul_spec
of_uint63_spec opp_spec sub_spec
abs add div eqb float frshiftexp ldshiftexp leb ltb mul normfr_mantissa of_uint63 opp sub
PrimInt63.add PrimInt63.eqb PrimInt63.int PrimInt63.land PrimInt63.leb PrimInt63.lor PrimInt63.lsl PrimInt63.lsr
PrimInt63.ltb PrimInt63.sub
Uint63.add_spec Uint63.eqb_correct Uint63.eqb_refl Uint63.leb_spec Uint63.lor_spec Uint63.lsl_spec Uint63.lsr_spec
Uint63.ltb_spec Uint63.of_to_Z Uint63.sub_spec
""".split())

FENS = [
    # (fen, white to move, number of legal moves)
    ("rnbqkbnr/pppppppp/8/8/8/8/PPPPPPPP/RNBQKBNR w KQkq - 0 1", 1, 20),
    ("rnbqkbnr/pppppppp/8/8/4P3/8/PPPP1PPP/RNBQKBNR b KQkq - 0 1", 0, 20),
    ("7k/8/8/8/8/8/5q2/7K w - - 0 1", 1, 0),            # stalemate: 0 moves (< 2)
    ("7k/8/8/8/8/8/6q1/7K w - - 0 1", 1, 1),            # Kxg2 only
    ("7K/6Q1/8/8/8/8/8/7k b - - 0 1", 0, 1),
    ("k7/8/1Q6/8/8/8/8/7K b - - 0 1", 0, 0),
    ("7k/8/8/8/8/8/8/K7 b - - 0 1", 0, 3),
    ("r3k2r/p1ppqpb1/bn2pnp1/3PN3/1p2P3/2N2Q1p/PPPBBPPP/R3K2R w KQkq - 0 1", 1, 48),
    ("8/8/8/8/8/5k2/7p/7K w - - 0 1", 1, 1),
]


FEN_WEIGHTED = [0, 0, 0, 1, 1, 1, 6, 6, 8, 2, 3, 4, 5, 7]       # ~36% positions with < 2 legal moves


# ------------------------------------------------------------------ build of the OCaml driver
def build_ml_driver(timeout=900):
    """Like coqbuild.extract, but links Coq's own Float64/Uint63 implementation
    (ocamlfind package coq-core.kernel) which ExtrOCamlFloats / ExtrOCamlInt63 target."""
    extract_v, driver_ml, exe_name = "ExtractTimeMgmt.v", "timemgmt_driver.ml", "timemgmt_driver"
    src = os.path.join(coqbuild.COQ, "Extract", extract_v)
    drv = os.path.join(VERIF, "drivers", driver_ml)
    deps = [os.path.join(coqbuild.COQ, "TimeMgmt", "TimeMgmt.v"), os.path.join(coqbuild.COQ, "gen", "TimeParams.v")]
    h = sha_files([src, drv] + deps)
    d = os.path.join(CACHE, "ml", "%s-%s" % (exe_name, h))
    exe = os.path.join(d, exe_name)
    if os.path.exists(exe):
        os.utime(d, None)
        return exe
    shutil.rmtree(d, ignore_errors=True)
    os.makedirs(d)
    shutil.copy(src, os.path.join(d, extract_v))
    with coqbuild.coq_lock():
        rc, so, se = sh(["coqc", "-Q", coqbuild.COQ, coqbuild.LOGICAL, "-w", "-extraction", extract_v], cwd=d, timeout=timeout)
    if rc != 0:
        shutil.rmtree(d, ignore_errors=True)
        raise RuntimeError("extraction %s failed:\n%s\n%s" % (extract_v, so[-3000:], se[-3000:]))
    shutil.copy(drv, os.path.join(d, driver_ml))
    cmd = ["ocamlfind", "ocamlopt", "-O3", "-w", "-a", "-rectypes", "-thread", "-package", "coq-core.kernel",
           "-linkpkg", "timemgmt_model.mli", "timemgmt_model.ml", driver_ml, "-o", exe_name]
    rc, so, se = sh(cmd, cwd=d, timeout=timeout)
    if rc != 0:
        shutil.rmtree(d, ignore_errors=True)
        raise RuntimeError("ocaml build %s failed:\n%s\n%s" % (driver_ml, so[-3000:], se[-3000:]))
    return exe


def build_cpp_harness():
    net = cbuild.make_net("material", 1)
    return cbuild.build_harness("timemgmt_harness", with_util=False, netfile=net,
                                extra_srcs=["app/texel/enginecontrol.cpp", "app/texel/uciprotocol.cpp"])


def load_tx():
    spec = importlib.util.spec_from_file_location("c06_consts", os.path.join(VERIF, "tx", "c06_consts.py"))
    m = importlib.util.module_from_spec(spec)
    spec.loader.exec_module(m)
    return m


# ------------------------------------------------------------------ generators
def gen_time(rng, buf):
    r = rng.random()
    if r < 0.10:
        return rng.choice([1, 2, 3, 4, 9, 10, 11, 19, 20, 21, 99, 100, 101])
    if r < 0.25:      # around the point where the margin switches from 90% of the clock to BufferTime
        return max(1, buf * 10 // 9 + rng.randint(-3, 3))
    if r < 0.35:
        return max(1, buf + rng.randint(-2, 2))
    if r < 0.50:
        return rng.randint(1, 2000)
    if r < 0.55:
        return rng.choice([10 ** 7, 10 ** 7 - 1, 10 ** 6, 12345678 % 10 ** 7])
    return int(10 ** rng.uniform(0, 7))


def gen_inc(rng, t):
    r = rng.random()
    if r < 0.40:
        return 0
    if r < 0.50:
        return rng.choice([1, 2, 10 ** 5, 10 ** 5 - 1])
    if r < 0.65:
        return min(10 ** 5, t + rng.randint(0, 1000))      # increment larger than the clock
    return rng.randint(0, 10 ** 5) if rng.random() < 0.5 else int(10 ** rng.uniform(0, 5))


def gen_alloc_case(rng, pars):
    """One in-range tuple (the property's ranges).  Returns dict."""
    bmin, bmax = pars["bufferTime"]["min"], pars["bufferTime"]["max"]
    r = rng.random()
    if r < 0.35:
        buf = pars["bufferTime"]["default"]
    elif r < 0.55:
        buf = rng.choice([bmin, bmin + 1, 10, 100, 999, 1001, 5000, bmax - 1, bmax])
    else:
        buf = rng.randint(bmin, bmax)
    wt = gen_time(rng, buf)
    bt = gen_time(rng, buf)
    wi, bi = gen_inc(rng, wt), gen_inc(rng, bt)
    mx = pars["timeMaxRemainingMoves"]["default"]
    r = rng.random()
    if r < 0.35:
        mtg = 0
    elif r < 0.60:
        mtg = rng.choice([1, 1, 2, 3, 4, mx - 1, mx, mx + 1, 99, 100])
    else:
        mtg = rng.randint(0, 100)
    mt = 0
    if rng.random() < 0.12:
        mt = rng.choice([1, 2, 100, 10 ** 5, rng.randint(1, 10 ** 5)])
    depth = rng.choice([1, 2, 3, 10]) if rng.random() < 0.06 else 0
    nodes = rng.choice([1, 1000, 10 ** 6]) if rng.random() < 0.04 else 0
    mate = rng.choice([1, 2, 5]) if rng.random() < 0.04 else 0
    inf = 1 if rng.random() < 0.03 else 0
    if rng.random() < 0.03:      # no clock at all: depth/nodes-only or nothing (=> infinite)
        wt = bt = 0
    return dict(buf=buf, ponderOpt=int(rng.random() < 0.5), wt=wt, bt=bt, wi=wi, bi=bi, mtg=mtg, depth=depth,
                nodes=nodes, mate=mate, mt=mt, inf=inf, fen=rng.choice(FEN_WEIGHTED), ponderCmd=int(rng.random() < 0.3),
                in_range=not (wt == 0 and bt == 0))


def gen_wild_case(rng, pars):
    """Malformed stream: values outside the property's ranges (zero/negative clocks, huge values)."""
    c = gen_alloc_case(rng, pars)

    def wild():
        return rng.choice([0, -1, -1000, INT_MAX, INT_MAX // 9, INT_MAX // 9 + 1, 2 * 10 ** 8, 10 ** 9, -INT_MAX,
                           rng.randint(-10 ** 6, 10 ** 9)])
    for k in rng.sample(["wt", "bt", "wi", "bi", "mtg", "mt", "mate", "depth", "nodes"], rng.randint(1, 3)):
        c[k] = wild()
    c["in_range"] = False
    return c


def alloc_lines(c):
    fen, white, nmoves = FENS[c["fen"]]
    return ("A %d %d %d %d %d %d %d %d %d %d %d %d %d %d %d" %
            (c["buf"], c["ponderOpt"], white, c["wt"], c["bt"], c["wi"], c["bi"], c["mtg"], c["depth"], c["nodes"],
             c["mate"], c["mt"], c["inf"], nmoves, c["ponderCmd"]))


def f2bits(x):
    return "0x%016x" % struct.unpack("<Q", struct.pack("<d", x))[0]


def bits2f(s):
    return struct.unpack("<d", struct.pack("<Q", int(s, 16)))[0]


def gen_poll_case(rng, pars):
    r = rng.random()
    if r < 0.15:
        minT = rng.choice([0, 0, 1, 1, 2])
    elif r < 0.25:
        minT = -1
    else:
        minT = int(10 ** rng.uniform(0, 7.2))
    r = rng.random()
    if minT < 0:
        maxT = rng.choice([-1, -1, 0, 5])
    elif r < 0.15:
        maxT = minT
    elif r < 0.80:
        maxT = min(INT_MAX, int(minT * rng.choice([1.0, 2.0, 2.5, 3.0, 3.5, 4.0])) + rng.choice([0, 0, 1]))
    elif r < 0.90:
        maxT = rng.randint(0, max(0, minT))       # max < min (not produced by the engine)
    else:
        maxT = -1
    esp = rng.choice([pars["minTimeUsage"]["default"]] * 5 + [100, 101, 10000, 1, 99])
    r = rng.random()
    if r < 0.35:
        hf = rng.choice([1.0, 2.0, 3.5, 0.3, 0.65, 1.5, 2.25, 2.75, 0.475, 3.0])
    elif r < 0.75:
        hf = rng.uniform(0.3, 3.5)
    elif r < 0.85:
        hf = rng.choice([0.0, -0.0, 4.0, 1e-300, 5e-324, 0.999999999, 1.0000000000000002])
    else:
        hf = rng.choice([-1.0, float("nan"), float("inf"), float("-inf"), 1e300, 1e19, -1e19, 9.3e18, 2.0 ** 63 / max(1, minT)])
    nm = int(rng.random() < 0.3)
    # the limit the code should be comparing against, only used to aim `elapsed` at the boundary
    try:
        lim = maxT if nm else (min(int(minT * hf), maxT) if (minT >= 0 and esp <= 100) else minT)
    except (ValueError, OverflowError):
        lim = maxT
    r = rng.random()
    if r < 0.55:
        el = lim + rng.choice([-2, -1, 0, 0, 1, 2])
    elif r < 0.75:
        el = maxT + rng.choice([-1, 0, 1])
    elif r < 0.85:
        el = rng.choice([0, 1])
    else:
        el = rng.randint(0, 2 * max(1, abs(maxT), abs(minT)))
    el = max(0, min(el, 2 ** 40))
    return dict(minT=minT, maxT=maxT, esp=esp, hf=f2bits(hf), nm=nm, el=el)


def poll_line(c):
    return "P %d %d %d %s %d %d" % (c["minT"], c["maxT"], c["esp"], c["hf"], c["nm"], c["el"])


# ------------------------------------------------------------------ running both sides
def run_lines(exe, lines, timeout=1800):
    rc, out, err = sh([exe], input="\n".join(lines) + "\n", timeout=timeout)
    res = out.split("\n")
    if res and res[-1] == "":
        res.pop()
    return rc, res, err


def cpp_alloc_stream(cases):
    """Harness input: F lines whenever the position changes."""
    lines, cur = [], None
    for c in cases:
        if c["fen"] != cur:
            cur = c["fen"]
            lines.append("F " + FENS[cur][0])
        lines.append(alloc_lines(c))
    return lines


def parse_alloc(line):
    """'A [ok] | a | b | c | d' -> (ok or None, [a, b, c, d] as tuples of str)"""
    parts = [p.split() for p in line.split("|")]
    head = parts[0]
    ok = int(head[1]) if len(head) > 1 else None
    return ok, [tuple(p) for p in parts[1:]]


# ------------------------------------------------------------------ specification side (finder)
def spec_budget(time_, buf):
    """The bound the code implements (DESIGN.md C06): remaining clock minus
    margin = min(BufferTime, 90% of the clock)."""
    return time_ - min(buf, time_ * 9 // 10)


def spec_check_alloc(c, groups):
    """Implementation output vs the inequality itself (never vs the model).
    Returns None if fine, else a description."""
    white = FENS[c["fen"]][1]
    nmoves = FENS[c["fen"]][2]
    mn, mx, esp = int(groups[0][0]), int(groups[0][1]), int(groups[0][2])
    if c["inf"]:
        return None if (mn, mx) == (-1, -1) else "infinite search has time limits %d/%d" % (mn, mx)
    if c["mt"] > 0:
        if not (mn == mx == c["mt"]):
            return "fixed move time %d but soft/hard = %d/%d" % (c["mt"], mn, mx)
        if esp <= 100:
            return "fixed move time but early stop percentage %d allows stopping before movetime" % esp
    elif c["wt"] or c["bt"]:
        t = c["wt"] if white else c["bt"]
        if t >= 1:
            budget = spec_budget(t, c["buf"])
            if not (1 <= mn <= mx <= max(1, budget)):
                return "1 <= soft <= hard <= clock - margin violated: soft=%d hard=%d clock=%d margin=%d budget=%d" % (
                    mn, mx, t, t - budget, budget)
    # limits handed to the search by a normal go (not ponder)
    sc = groups[1]
    if not c["ponderCmd"] and sc[0] != "-":
        smin, smax = int(sc[0]), int(sc[1])
        if mx > 0:
            if not (1 <= smin <= smax <= mx):
                return "limits handed to the search exceed the allocation: %d/%d vs %d/%d" % (smin, smax, mn, mx)
            inf = (mx < 0) and int(groups[0][3]) < 0 and int(groups[0][4]) < 0
            if nmoves < 2 and not inf and not (smax <= 100 and smax <= max(1, mx // 100)):
                return "single legal move: hard limit %d not clamped to max(1, hard/100) <= 100" % smax
    if c["ponderCmd"] and sc[0] != "-":
        if (int(sc[0]), int(sc[1])) != (-1, -1):
            return "ponder search started with time limits %s/%s" % (sc[0], sc[1])
    # after ponderhit
    ph = groups[2]
    if ph[2] != "-":
        pmin, pmax = int(ph[2]), int(ph[3])
        if mx > 0 and not (1 <= pmin <= pmax <= mx):
            return "limits after ponderhit exceed the allocation: %d/%d vs %d/%d" % (pmin, pmax, mn, mx)
        if c["ponderCmd"] and mx > 0 and nmoves < 2 and not (pmax <= 1):
            return "ponderhit with a single legal move: hard limit %d > 1" % pmax
    st = groups[3]
    if st[0] != "-" and (int(st[0]), int(st[1])) != (0, 0):
        return "limits after stop are %s/%s, not 0/0" % (st[0], st[1])
    return None


def spec_literal_violation(c, groups):
    """The property's literal wording: budget = clock - configured BufferTime."""
    white = FENS[c["fen"]][1]
    if c["inf"] or c["mt"] > 0 or not (c["wt"] or c["bt"]):
        return None
    t = c["wt"] if white else c["bt"]
    if t < 1:
        return None
    mx = int(groups[0][1])
    if mx > max(1, t - c["buf"]):
        return dict(clock=t, buffer=c["buf"], hard=mx, literal_budget=max(1, t - c["buf"]))
    return None


def spec_check_poll(c, stop):
    """shouldStop at/after the hard limit must stop (for sane limits and hardFactor)."""
    hf = bits2f(c["hf"])
    if 0 <= c["minT"] <= c["maxT"] and 0.0 <= hf <= 4.0 and c["el"] >= c["maxT"] and not stop:
        return "poll at elapsed=%d >= hard=%d did not stop (soft=%d esp=%d hardFactor=%r needMore=%d)" % (
            c["el"], c["maxT"], c["minT"], c["esp"], hf, c["nm"])
    return None


# ------------------------------------------------------------------ end-to-end runs (hooks H1 + H2)
def hook_present():
    try:
        return "namespace TexelVerif" in open(os.path.join(REPO, "lib", "texellib", "util", "timeUtil.hpp")).read()
    except OSError:
        return False


class Engine:
    """The UCI binary under the virtual clock; stdin stays open until quit()."""

    def __init__(self, exe, ticks_per_ms):
        env = dict(os.environ)
        env["TEXEL_VERIF_VCLOCK"] = str(ticks_per_ms)
        env["TEXEL_VERIF_TRACE"] = "1"
        self.p = subprocess.Popen([exe], stdin=subprocess.PIPE, stdout=subprocess.PIPE, stderr=subprocess.DEVNULL,
                                  text=True, bufsize=1, env=env)
        self.lines = []
        self.cv = threading.Condition()
        self.eof = False
        self.t = threading.Thread(target=self._reader, daemon=True)
        self.t.start()

    def _reader(self):
        for l in self.p.stdout:
            with self.cv:
                self.lines.append(l.rstrip("\n"))
                self.cv.notify_all()
        with self.cv:
            self.eof = True
            self.cv.notify_all()

    def send(self, cmd):
        self.p.stdin.write(cmd + "\n")
        self.p.stdin.flush()

    def wait_for(self, pred, timeout, start=0):
        """Index of the first line >= start satisfying pred, or None on timeout/EOF."""
        end = time.time() + timeout
        i = start
        with self.cv:
            while True:
                while i < len(self.lines):
                    if pred(self.lines[i]):
                        return i
                    i += 1
                left = end - time.time()
                if left <= 0 or self.eof:
                    return None
                self.cv.wait(left)

    def quit(self):
        try:
            self.send("quit")
            self.p.wait(timeout=10)
        except Exception:
            pass
        finally:
            if self.p.poll() is None:
                self.p.kill()
                self.p.wait()


def gen_e2e_case(rng, pars):
    c = None
    while c is None or FENS[c["fen"]][2] == 0 or c["inf"] or not (c["wt"] and c["bt"]):
        c = gen_alloc_case(rng, pars)
    c["depth"] = c["nodes"] = c["mate"] = 0
    # keep the runs short: clocks up to ~20 s, short move times
    for k in ("wt", "bt"):
        if c[k] > 20000:
            c[k] = rng.choice([c[k] % 20000 + 1, rng.randint(1, 5000)])
    if c["mt"] > 0:
        c["mt"] = rng.choice([1, 2, 10, 50, 200, rng.randint(1, 400)])
    c["wi"] = min(c["wi"], rng.choice([0, 10, 100, 1000]))
    c["bi"] = min(c["bi"], rng.choice([0, 10, 100, 1000]))
    r = rng.random()
    c["kind"] = "go" if r < 0.45 else "ponderhit" if r < 0.70 else "stop" if r < 0.85 else "ponder_stop"
    c["ponderCmd"] = int(c["kind"] in ("ponderhit", "ponder_stop"))
    c["threads"] = rng.choice([1, 1, 1, 2, 3, 4])
    c["maxnps"] = rng.choice([0, 0, 0, 20000, 50000])
    c["delay"] = rng.choice([0.0, 0.02, 0.1, 0.3])
    return c


def e2e_one(exe, ml_exe, c):
    """Run one script; returns (verdict dict).  verdict['bad'] is None when everything holds."""
    fen, white, nmoves = FENS[c["fen"]]
    rc, mo, _ = run_lines(ml_exe, [alloc_lines(c)])
    ok, g = parse_alloc(mo[0])
    exp_start = tuple(int(x) for x in g[1][:3])          # limits handed over by go / go ponder
    exp_hit = tuple(int(x) for x in g[2][2:5])           # after ponderhit
    hard0 = max(exp_start[1], exp_hit[1], 1)
    tpm = max(1, min(400, 120000 // hard0))              # ticks (nodes) per virtual ms
    if c["maxnps"]:
        tpm = max(1, min(tpm, c["maxnps"] // 1000))
    eng = Engine(exe, tpm)
    v = dict(case=c, ticks_per_ms=tpm, bad=None, bad_kind="spec")
    try:
        eng.send("uci")
        for l in uci_script(c)[:2]:
            eng.send(l)
        eng.send("setoption name Threads value %d" % c["threads"])
        eng.send("setoption name MaxNPS value %d" % c["maxnps"])
        eng.send("setoption name Hash value 16")
        eng.send("isready")
        if eng.wait_for(lambda l: l == "readyok", 60) is None:
            v["bad"] = "engine did not answer isready"
            return v
        eng.send(uci_script(c)[2])
        go = uci_script(c)[3]
        eng.send(go)
        i_lim = eng.wait_for(lambda l: l.startswith("info string verif limits"), 30)
        if i_lim is None:
            v["bad"] = "no limits notification after '%s'" % go
            return v
        if c["kind"] in ("ponderhit", "stop", "ponder_stop"):
            if c["delay"]:
                time.sleep(c["delay"])
            eng.send("ponderhit" if c["kind"] == "ponderhit" else "stop")
        i_best = eng.wait_for(lambda l: l.startswith("bestmove"), 40)
        if i_best is None:
            v["bad"] = "no bestmove within 40 s of real time (script: %s / %s)" % (go, c["kind"])
            return v
        lines = list(eng.lines[:i_best + 1])
    finally:
        eng.quit()
    lims, t_hit, t_stop, best = [], None, None, None
    for l in lines:
        t = l.split()
        if l.startswith("info string verif limits"):
            lims.append((int(t[4]), int(t[5]), int(t[6]), int(t[8]), int(t[10])))
        elif l.startswith("info string verif ponderhit"):
            t_hit = int(t[5])
        elif l.startswith("info string verif stop"):
            t_stop = int(t[5])
        elif l.startswith("info string verif bestmove"):
            best = dict(now=int(t[5]), polls=int(t[7]), maxgap=int(t[9]), lastpoll=int(t[11]))
    v.update(limits=lims, t_ponderhit=t_hit, t_stop=t_stop, best=best)
    if best is None:
        v["bad"] = "no bestmove time stamp"
        return v
    # H2: limits handed to the search = the model's
    tstart = lims[0][3]
    hits = [x for x in lims[1:] if x[:2] != (0, 0)]
    # specification side, independent of the model: whatever is handed over stays within the budget
    t_clock = c["wt"] if white else c["bt"]
    cap = c["mt"] if c["mt"] > 0 else max(1, spec_budget(t_clock, c["buf"]))
    for x in ([lims[0]] if c["kind"] in ("go", "stop") else []) + (hits[:1] if c["kind"] == "ponderhit" else []):
        if not (1 <= x[0] <= x[1] <= cap):
            v["bad"] = "limits handed to the search %s are not within 1 <= soft <= hard <= %d" % (x[:2], cap)
            return v
    if c["ponderCmd"] and lims[0][:2] != (-1, -1):
        v["bad"] = "ponder search started with limits %s" % (lims[0][:2],)
        return v
    # correspondence: the limits are exactly the model's
    if lims[0][:3] != exp_start:
        v["bad_kind"] = "corr"
        v["bad"] = "limits handed to the search %s differ from the model's %s" % (lims[0][:3], exp_start)
        return v
    if c["kind"] == "ponderhit" and (not hits or hits[0][:3] != exp_hit):
        v["bad_kind"] = "corr"
        v["bad"] = "limits after ponderhit %s differ from the model's %s" % (hits[:1], exp_hit)
        return v
    gap = max(best["maxgap"], 1)
    latency = best["now"] - best["lastpoll"]
    v["latency"] = latency
    # deadline in virtual ms
    # (the instant a limit change takes effect is the `now` of its H2 notification, which is
    # read after the new limits have been stored; the stamp printed on entry of ponderHit /
    # stopThread is earlier, the search thread keeps running in between)
    if c["kind"] == "go":
        deadline = tstart + lims[0][1]
    elif c["kind"] == "ponderhit":
        deadline = max(hits[0][4], tstart + hits[0][1]) if hits else best["now"]
    else:
        zeros = [x for x in lims[1:] if x[:2] == (0, 0)]
        deadline = zeros[0][4] if zeros else best["now"]
    v["deadline"] = deadline
    if best["polls"] > 0 and best["lastpoll"] > deadline + gap:
        v["bad"] = ("search still polling at virtual time %d, later than deadline %d (tstart %d + hard) plus one polling "
                    "interval %d" % (best["lastpoll"], deadline, tstart, gap))
    elif c["threads"] == 1 and best["now"] > deadline + gap:
        # one thread: no node is searched between the stop decision and the bestmove output, so the
        # stamp itself obeys the bound.  With helper threads the node-driven clock keeps being
        # advanced by the helpers (they are told to stop after the bestmove is printed); that
        # reporting latency is an artefact of the virtual clock and is only measured.
        v["bad"] = "bestmove at virtual time %d, later than deadline %d plus polling interval %d" % (best["now"], deadline, gap)
    return v


def end_to_end(ctx, ml_exe, pars, spec_fail, disagreements):
    if not hook_present():
        ctx.notes["end_to_end"] = ("skipped: hook H1/H2 (hooks/h1-virtual-clock.patch) is not applied to %s; only the "
                                   "function-level correspondence ran" % REPO)
        ctx.log("end-to-end virtual-clock runs skipped (hook H1/H2 not present in %s)" % REPO)
        return
    exe = cbuild.build_engine("material", 1)
    n = ctx.scale(150, 2000)
    if spec_fail or disagreements:
        n = 16          # the function-level stage already failed: a short confirmation run only
    cases = [gen_e2e_case(ctx.rng, pars) for _ in range(n)]
    t0 = time.time()
    res = []
    W = max(2, NCPU // 2)
    with ThreadPoolExecutor(max_workers=W) as ex:
        for i in range(0, n, 4 * W):
            res += list(ex.map(lambda c: e2e_one(exe, ml_exe, c), cases[i:i + 4 * W]))
            if sum(1 for v in res if v["bad"]) >= 3:
                break           # enough evidence; do not wait for more runs of a broken engine
    n = len(res)
    gaps, lat = [], []
    for v in res:
        ctx.evaluated()
        ctx.count("e2e_" + v["case"]["kind"])
        ctx.count("e2e_threads_%d" % v["case"]["threads"])
        if v["case"]["maxnps"]:
            ctx.count("e2e_maxnps")
        if FENS[v["case"]["fen"]][2] < 2:
            ctx.count("e2e_single_legal_move")
        if v.get("best"):
            gaps.append(v["best"]["maxgap"])
            lat.append(v.get("latency", 0))
            if v["best"]["polls"] > 0 and v.get("deadline") is not None and abs(v["best"]["lastpoll"] - v["deadline"]) <= max(1, v["best"]["maxgap"]):
                ctx.count("e2e_stopped_within_one_interval_of_deadline")
        ctx.nontrivial(("E", json.dumps(v["case"], sort_keys=True)))
        if v["bad"]:
            obs = json.dumps({k: v.get(k) for k in ("limits", "best", "t_ponderhit", "t_stop", "deadline", "ticks_per_ms")})
            if v["bad_kind"] == "corr":
                disagreements.append(dict(kind="e2e", case=v["case"], cpp=obs, model=v["bad"], note="end-to-end H2 notification"))
            else:
                spec_fail.append(dict(kind="e2e", case=v["case"], cpp=obs, why=v["bad"]))
    ctx.notes["end_to_end"] = {"runs": n, "wall_s": round(time.time() - t0, 1),
                               "max_polling_interval_virtual_ms": max(gaps) if gaps else None,
                               "max_report_latency_virtual_ms": max(lat) if lat else None}
    ctx.traces_validated += n
    if res:
        v = res[0]
        ctx.sample({"e2e_script": uci_script(v["case"]) + [v["case"]["kind"]], "limits": v.get("limits"), "best": v.get("best"),
                    "deadline": v.get("deadline")})


# ------------------------------------------------------------------ hardFactor updates (model vs an independent IEEE evaluation)
def py_hard_of(f):
    """Transcription of the block in Search::iterativeDeepening (CPython floats are C doubles)."""
    if f < 0.20:
        return 3.5
    elif f < 0.40:
        return 3.5 + (1.0 - 3.5) * (f - 0.20) / (0.40 - 0.20)
    elif f < 0.60:
        return 1.0
    elif f < 0.85:
        return 1.0 + (0.3 - 1.0) * (f - 0.60) / (0.85 - 0.60)
    return 0.3


def check_hardfactor_model(ctx, ml_exe, disagreements):
    """The hardFactor updates live inside iterativeDeepening and cannot be called in isolation, so
    the harness does not reach them; the extracted model is compared with a second transcription
    evaluated by the host's IEEE doubles (bit patterns), and hf_ok is sampled on the results."""
    rng = ctx.rng
    lines, exp = [], []
    for _ in range(ctx.scale(4000, 200000)):
        tot = rng.choice([1, 2, 3, 10, 1000, rng.randint(1, 10 ** 9)])
        first = rng.choice([0, tot, tot // 5, tot * 2 // 5, tot * 3 // 5, tot * 17 // 20, rng.randint(0, tot)])
        f = first / float(tot)
        lines.append("N %d %d" % (first, tot))
        exp.append("N %s %s" % (f2bits(f), f2bits(py_hard_of(f))))
    hfs = [1.0, 2.0, 3.5, 0.3, 0.65] + [rng.uniform(0.3, 3.5) for _ in range(200)]
    for hf in hfs:
        for hard in (3.5, 1.0, 0.3, rng.uniform(0.3, 3.5)):
            lines.append("H %s %s" % (f2bits(hf), f2bits(hard)))
            exp.append("H %s %s %s" % (f2bits(hf if not hf < 1.0 else 1.0), f2bits(hf if not hf < 2.0 else 2.0),
                                         f2bits((hf + hard) / 2)))
    rc, out, err = run_lines(ml_exe, lines)
    if rc != 0 or len(out) != len(lines):
        raise RuntimeError("driver failed on hardFactor cases: rc=%d %s" % (rc, err[-500:]))
    bad = 0
    for l, a, b in zip(lines, out, exp):
        ctx.evaluated()
        if a != b:
            bad += 1
            if bad <= 3:
                disagreements.append(dict(kind="hardfactor", case=l, cpp="(python transcription) " + b, model=a, note=""))
        if l[0] == "N":
            h = bits2f(a.split()[2])
            if not (0.3 <= h <= 3.5):
                disagreements.append(dict(kind="hardfactor", case=l, cpp="hard=%r outside [0.3,3.5]" % h, model=a, note=""))
    ctx.count("hardfactor_cases_model_vs_host_doubles", len(lines))


# ------------------------------------------------------------------ the check
def correspond_alloc(ctx, cpp_exe, ml_exe, cases, disagreements, spec_fail, literal):
    CH = 5000
    chunks = [cases[i:i + CH] for i in range(0, len(cases), CH)]

    def one(ch):
        r1 = run_lines(cpp_exe, cpp_alloc_stream(ch))
        r2 = run_lines(ml_exe, [alloc_lines(c) for c in ch])
        return r1, r2
    with ThreadPoolExecutor(max_workers=NCPU) as ex:
        results = list(ex.map(one, chunks))
    for ch, ((rc1, o1, e1), (rc2, o2, e2)) in zip(chunks, results):
        a1 = [l for l in o1 if l.startswith("A")]
        f1 = [l for l in o1 if l.startswith("F")]
        if rc1 != 0 or rc2 != 0 or len(a1) != len(ch) or len(o2) != len(ch):
            raise RuntimeError("harness/driver failed: rc=%d/%d lines %d/%d of %d\n%s\n%s" %
                               (rc1, rc2, len(a1), len(o2), len(ch), e1[-1500:], e2[-1500:]))
        for l in f1:
            t = l.split()
            key = (int(t[1]), int(t[2]))
            if key not in [(w, n) for _, w, n in FENS]:
                raise RuntimeError("FEN table of props/c06.py disagrees with the move generator: %s" % l)
        for c, l1, l2 in zip(ch, a1, o2):
            ctx.evaluated()
            _, g1 = parse_alloc(l1)
            ok, g2 = parse_alloc(l2)
            white = FENS[c["fen"]][1]
            nm = FENS[c["fen"]][2]
            t = c["wt"] if white else c["bt"]
            # distribution
            if c["inf"]:
                br = "infinite"
            elif c["mt"] > 0:
                br = "movetime"
            elif c["wt"] or c["bt"]:
                br = "clock"
            else:
                br = "no_time_control"
            ctx.count("alloc_branch_" + br)
            if c["in_range"]:
                ctx.count("alloc_in_range")
            if not ok:
                ctx.count("alloc_model_flags_overflow(UB)")
                if c["in_range"]:
                    disagreements.append(dict(kind="alloc", case=c, cpp=l1, model=l2,
                                              note="model reports signed overflow inside the property's ranges"))
                continue
            if br == "clock" and c["in_range"] and t >= 1:
                mn, mx = int(g1[0][0]), int(g1[0][1])
                budget = spec_budget(t, c["buf"])
                ctx.count("margin_is_90pct_of_clock" if t * 9 // 10 < c["buf"] else "margin_is_BufferTime")
                if mn == 1:
                    ctx.count("soft_clamped_to_1")
                if mn == budget:
                    ctx.count("soft_clamped_to_budget")
                if mx == budget:
                    ctx.count("hard_clamped_to_budget")
                if c["ponderOpt"]:
                    ctx.count("ponder_option_on")
                if c["mtg"] == 0:
                    ctx.count("movestogo_0")
                elif c["mtg"] == 1:
                    ctx.count("movestogo_1")
                if (c["wi"] if white else c["bi"]) > t:
                    ctx.count("inc_gt_clock")
                if t < c["buf"]:
                    ctx.count("clock_lt_buffer")
                ctx.nontrivial((c["buf"], c["ponderOpt"], white, c["wt"], c["bt"], c["wi"], c["bi"], c["mtg"]))
            if nm < 2:
                ctx.count("positions_with_lt2_legal_moves")
            if c["ponderCmd"]:
                ctx.count("go_ponder")
            if g1 != g2:
                disagreements.append(dict(kind="alloc", case=c, cpp=l1, model=l2, note=""))
            why = spec_check_alloc(c, g1) if c["in_range"] else None
            if why:
                spec_fail.append(dict(kind="alloc", case=c, cpp=l1, why=why))
            lit = spec_literal_violation(c, g1) if c["in_range"] else None
            if lit:
                ctx.count("literal_reading_exceeded(clock-BufferTime)")
                if len(literal) < 5:
                    literal.append(dict(case=c, cpp=l1, **lit))
            if len(ctx.samples) < 4 and br == "clock":
                ctx.sample({"input": alloc_lines(c), "fen": FENS[c["fen"]][0], "cpp": l1, "model": l2})


def correspond_poll(ctx, cpp_exe, ml_exe, cases, disagreements, spec_fail):
    lines = [poll_line(c) for c in cases]
    rc1, o1, e1 = run_lines(cpp_exe, lines)
    rc2, o2, e2 = run_lines(ml_exe, lines)
    if rc1 != 0 or rc2 != 0 or len(o1) != len(cases) or len(o2) != len(cases):
        raise RuntimeError("poll harness/driver failed: rc=%d/%d lines %d/%d of %d\n%s\n%s" %
                           (rc1, rc2, len(o1), len(o2), len(cases), e1[-1500:], e2[-1500:]))
    for c, l1, l2 in zip(cases, o1, o2):
        ctx.evaluated()
        s1 = int(l1.split()[1])
        t2 = l2.split()
        s2, lim, ok = int(t2[1]), int(t2[2]), int(t2[3])
        ctx.count("poll_stop" if s1 else "poll_continue")
        if not ok:
            ctx.count("poll_hardFactor_conversion_out_of_range(UB)")
        if c["el"] == lim:
            ctx.count("poll_exactly_at_limit")
        elif c["el"] == lim - 1:
            ctx.count("poll_1ms_before_limit")
        ctx.nontrivial(("P", c["minT"], c["maxT"], c["esp"], c["hf"], c["nm"], c["el"]))
        if s1 != s2:
            disagreements.append(dict(kind="poll", case=c, cpp=l1, model=l2, note=""))
        why = spec_check_poll(c, s1)
        if why:
            spec_fail.append(dict(kind="poll", case=c, cpp=l1, why=why))
    if cases:
        ctx.sample({"input": lines[0], "cpp": o1[0], "model": o2[0]})


def shrink_alloc(cpp_exe, ml_exe, c):
    """Greedy shrink of an allocation tuple on which model and implementation disagree."""
    def bad(x):
        rc1, o1, _ = run_lines(cpp_exe, cpp_alloc_stream([x]))
        rc2, o2, _ = run_lines(ml_exe, [alloc_lines(x)])
        a1 = [l for l in o1 if l.startswith("A")]
        if rc1 or rc2 or not a1 or not o2:
            return True
        ok, g2 = parse_alloc(o2[0])
        return ok and parse_alloc(a1[0])[1] != g2
    cur = dict(c)
    for k, simple in (("depth", 0), ("nodes", 0), ("mate", 0), ("inf", 0), ("mt", 0), ("ponderCmd", 0), ("fen", 0),
                      ("ponderOpt", 0), ("wi", 0), ("bi", 0), ("mtg", 0), ("mtg", 1), ("buf", 1000)):
        if cur[k] != simple:
            cand = dict(cur)
            cand[k] = simple
            if bad(cand):
                cur = cand
    for k in ("wt", "bt", "wi", "bi"):
        for _ in range(40):
            v = cur[k]
            if v <= 1:
                break
            moved = False
            for nv in (v // 2, v - 1):
                cand = dict(cur)
                cand[k] = nv
                if bad(cand):
                    cur = cand
                    moved = True
                    break
            if not moved:
                break
    return cur


def finder(ctx, cpp_exe, first_cases, pars, n):
    """Stage (5): implementation vs the inequality itself on targeted inputs."""
    rng = ctx.rng
    cases = [c for c in first_cases if c is not None]
    # the case splits of C06_allocation_bounds: tiny clocks, clock around the margin switch,
    # movestogo 0/1/max, ponder on/off, both sides, huge increments
    for buf in (1, 10, 999, 1000, 1001, 10000):
        for t in (1, 2, 3, 9, 10, 11, buf - 1, buf, buf + 1, buf * 10 // 9 - 1, buf * 10 // 9, buf * 10 // 9 + 1, 10 ** 7):
            if t < 1:
                continue
            for mtg in (0, 1, 2, 35, 100):
                for inc in (0, 1, t + 1, 10 ** 5):
                    for po in (0, 1):
                        for fen in (0, 1, 3):
                            cases.append(dict(buf=buf, ponderOpt=po, wt=t, bt=max(1, t // 2), wi=inc, bi=0, mtg=mtg,
                                              depth=0, nodes=0, mate=0, mt=0, inf=0, fen=fen, ponderCmd=0, in_range=True))
    cases += [gen_alloc_case(rng, pars) for _ in range(n)]
    cases = [c for c in cases if c.get("in_range")]
    rc, out, err = run_lines(cpp_exe, cpp_alloc_stream(cases))
    a = [l for l in out if l.startswith("A")]
    ctx.count("finder_tuples_vs_inequality", len(a))
    for c, l in zip(cases, a):
        why = spec_check_alloc(c, parse_alloc(l)[1])
        if why:
            return dict(kind="alloc", case=c, cpp=l, why=why)
    polls = [gen_poll_case(rng, pars) for _ in range(n // 4)]
    rc, out, err = run_lines(cpp_exe, [poll_line(c) for c in polls])
    ctx.count("finder_polls_vs_deadline", len(out))
    for c, l in zip(polls, out):
        why = spec_check_poll(c, int(l.split()[1]))
        if why:
            return dict(kind="poll", case=c, cpp=l, why=why)
    return None


def case_key(f):
    c = f["case"]
    if f["kind"] == "e2e":
        return "e2e:" + ";".join(uci_script(c)).replace(" ", ",") + ";" + c["kind"]
    if f["kind"] == "alloc":
        return "go:" + alloc_lines(c).replace(" ", ",") + ";fen=" + FENS[c["fen"]][0].replace(" ", "_")
    return "poll:" + poll_line(c).replace(" ", ",")


def run(ctx):
    ctx.rule = ("allocation tuples drawn boundary-biased from the property's ranges (clock 1..10^7 incl. 1..3, clock "
                "around BufferTime and around BufferTime*10/9 where the margin switches, inc 0..10^5 incl. inc > clock, "
                "movestogo 0/1/34..36/100, movetime, depth/nodes/mate/infinite, Ponder option, go ponder, BufferTime "
                "1..10000, 8 positions with 0/1/2/20/48 legal moves and both sides to move) plus a malformed stream "
                "(zero/negative/huge values) compared only where the model reports no signed overflow; poll tuples "
                "(soft, hard, earlyStop, hardFactor bit pattern incl. NaN/inf/negative, needMoreTime, elapsed aimed at "
                "limit-2..limit+2). non-trivial = clock-branch tuple inside the ranges, distinct by parameter tuple; "
                "poll tuples distinct by tuple")
    ctx.trusted_base = ["Coq 8.16.1 kernel (coqc, vm_compute, primitive floats and Uint63)",
                        "Flocq 4 + Coq.Reals + Coq.Floats.FloatAxioms (specification of the primitive float operations)",
                        "extraction (ExtrOcamlBasic, ExtrOCamlFloats, ExtrOCamlInt63) + OCaml 4.13 + coq-core.kernel Float64/Uint63 + drivers/timemgmt_driver.ml",
                        "harness/timemgmt_harness.cpp (#define private public; engine main loop not started)",
                        "tx/c06_consts.py (regex extraction of DECLARE_PARAM literals)",
                        "hand-written model coq/TimeMgmt/TimeMgmt.v tied by correspondence",
                        "x86-64 SSE2 double arithmetic of the harness = IEEE binary64 round-to-nearest-even"]
    ctx.assumptions = ["model = code is established by differential testing (every limit after every entry point equal), not by proof",
                       "the polling interval (nodes between two shouldStop calls, quiescence sub-trees) is a run-time quantity; the theorems bound the limit compared against, the end-to-end runs measure the gap",
                       "wall-clock behaviour of the OS clock is out of scope (virtual clock in the end-to-end runs)",
                       "end-to-end runs with Threads > 1: the bound is checked on the main thread's stop decision (its last time test); the bestmove stamp additionally contains virtual time ticked by helper threads until they are stopped (measured, reported as max_report_latency_virtual_ms, not bounded)"]
    # (1) translate
    tx = load_tx()
    try:
        path, pars, changed = tx.generate(REPO, VERIF)
    except tx.TranslatorError as ex:
        ctx.violation("broken tie: %s" % ex, {"translator": str(ex)}, no_failing_input=True)
        return
    ctx.notes["generated"] = {"file": os.path.relpath(path, VERIF), "params": pars, "changed_on_this_run": changed}
    # (2) prove
    ok, info = coqbuild.prove(ctx, PROP_FILE, allowed_axioms=ALLOWED_AXIOMS, timeout=ctx.scale(900, 3600))
    proof_broken = not ok
    if proof_broken:
        ctx.log("proof stage failed: %s" % json.dumps(info.get("errors") or info.get("illegal_axioms") or info.get("forbidden"))[:1500])
    # (3) build
    cpp_exe = build_cpp_harness()
    ml_exe = build_ml_driver()
    # (4) correspond
    rng = ctx.rng
    disagreements, spec_fail, literal = [], [], []
    cases = []
    corpus = os.path.join(VERIF, "corpus", "c06.txt")
    if os.path.exists(corpus):
        for l in open(corpus):
            l = l.strip()
            if l and not l.startswith("#"):
                cases.append(json.loads(l))
    n_alloc = ctx.scale(100000, 10 ** 7 // 4)
    n_wild = ctx.scale(4000, 100000)
    n_poll = ctx.scale(30000, 10 ** 6)
    cases += [gen_alloc_case(rng, pars) for _ in range(n_alloc)]
    cases += [gen_wild_case(rng, pars) for _ in range(n_wild)]
    t0 = time.time()
    correspond_alloc(ctx, cpp_exe, ml_exe, cases, disagreements, spec_fail, literal)
    polls = [gen_poll_case(rng, pars) for _ in range(n_poll)]
    correspond_poll(ctx, cpp_exe, ml_exe, polls, disagreements, spec_fail)
    ctx.notes["distribution"] = {"alloc_in_range": n_alloc, "alloc_malformed": n_wild, "poll": n_poll,
                                 "correspondence_wall_s": round(time.time() - t0, 1)}
    ctx.traces_validated = ctx.evaluations
    check_hardfactor_model(ctx, ml_exe, disagreements)
    end_to_end(ctx, ml_exe, pars, spec_fail, disagreements)
    if literal:
        ctx.notes["literal_reading"] = {
            "note": "the property text says 'remaining clock minus the configured safety buffer'; the code (and "
                    "C06_allocation_bounds) use margin = min(BufferTime, 90% of the clock), so when clock*9/10 < BufferTime "
                    "the hard limit exceeds max(1, clock - BufferTime) (it never exceeds 10% of the clock, rounded up). "
                    "Proved as C06_literal_budget_refuted / C06_literal_budget_when_clock_large.",
            "examples": literal}

        # a listed known finding is re-confirmed on the implementation (never a VIOLATION by itself:
        # the bound the code implements is the one DESIGN.md fixes for C06_allocation_bounds)
        hit = ctx.kf.match(ctx.prop, LITERAL_KEY)
        if hit is not None:
            ctx.known_finding(LITERAL_KEY, hit.get("what") or "hard limit exceeds max(1, clock - BufferTime) when clock*9/10 < BufferTime")
    # outside the property's ranges (recorded, not judged): a negative clock for the mover makes
    # both limits negative = "no limit", i.e. the engine searches until 'stop'
    probe = dict(buf=1000, ponderOpt=0, wt=-5, bt=1000, wi=0, bi=0, mtg=0, depth=0, nodes=0, mate=0, mt=0, inf=0, fen=0,
                 ponderCmd=0, in_range=False)
    rc, out, _ = run_lines(cpp_exe, cpp_alloc_stream([probe]))
    a = [l for l in out if l.startswith("A")]
    if a:
        g = parse_alloc(a[0])[1]
        ctx.notes["out_of_range_observation"] = {
            "uci": uci_script(probe), "implementation": a[0],
            "note": ("mover's clock negative (outside the property's range 1..10^7): limits %s/%s, infinite flag %s -- "
                     "the search has no deadline and answers only after 'stop'" % (g[0][0], g[0][1], g[1][5]))}

    corr_broken = bool(disagreements)
    if not proof_broken and not corr_broken and not spec_fail:
        return
    # (5) find
    replay = {"broken_proof": info if proof_broken else None, "disagreement": None,
              "generated_params": pars}
    first = []
    if spec_fail:
        found = spec_fail[0]
    else:
        if corr_broken:
            d = disagreements[0]
            small = shrink_alloc(cpp_exe, ml_exe, d["case"]) if d["kind"] == "alloc" else d["case"]
            replay["disagreement"] = {"kind": d["kind"], "case": small, "original": d["case"], "cpp": d["cpp"],
                                      "model": d["model"], "note": d["note"], "count": len(disagreements)}
            first = ([small] if d["kind"] == "alloc" else []) + [x["case"] for x in disagreements[:200] if x["kind"] == "alloc"]
        found = finder(ctx, cpp_exe, first, pars, ctx.scale(60000, 2000000))
    if found:
        replay["failing_input"] = found
        if found["kind"] in ("alloc", "e2e"):
            replay["uci"] = uci_script(found["case"])
        ctx.violation("time limits violate the specification: %s" % found["why"], replay, key=case_key(found))
    else:
        what = ("theorem(s) in %s no longer check" % PROP_FILE) if proof_broken else "correspondence model/implementation broken"
        replay["broken"] = what
        ctx.violation(what, replay, no_failing_input=True)


def uci_script(c):
    fen = FENS[c["fen"]][0]
    go = "go" + (" ponder" if c["ponderCmd"] else "")
    for k, n in (("wt", "wtime"), ("bt", "btime"), ("wi", "winc"), ("bi", "binc"), ("mtg", "movestogo"), ("depth", "depth"),
                 ("nodes", "nodes"), ("mate", "mate"), ("mt", "movetime")):
        if c[k]:
            go += " %s %d" % (n, c[k])
    if c["inf"]:
        go += " infinite"
    return ["setoption name BufferTime value %d" % c["buf"], "setoption name Ponder value %s" % ("true" if c["ponderOpt"] else "false"),
            "position fen " + fen, go]


def replay(ctx, body):
    r = body.get("replay", {})
    f = r.get("failing_input") or r.get("disagreement")
    if not f:
        print("no concrete input in this replay (broken theorem/correspondence):", r.get("broken"))
        return
    c = f["case"]
    if f.get("kind") == "e2e":
        if not hook_present():
            print("this replay needs hook H1/H2 in the tree (VERIF_REPO=%s)" % REPO)
            return
        v = e2e_one(cbuild.build_engine("material", 1), build_ml_driver(), c)
        print("script:", uci_script(c), c["kind"], "threads", c["threads"], "MaxNPS", c["maxnps"])
        print("observed:", {k: v.get(k) for k in ("limits", "best", "t_ponderhit", "t_stop", "deadline", "ticks_per_ms")})
        print("specification:", v["bad"] or "ok")
        return
    cpp_exe = build_cpp_harness()
    if f.get("kind") == "poll":
        rc, out, _ = run_lines(cpp_exe, [poll_line(c)])
        print("input:", poll_line(c))
        print("implementation:", out)
        print("specification:", spec_check_poll(c, int(out[0].split()[1])) or "ok")
    else:
        rc, out, _ = run_lines(cpp_exe, cpp_alloc_stream([c]))
        a = [l for l in out if l.startswith("A")]
        print("input:", alloc_lines(c), "| fen", FENS[c["fen"]][0])
        print("uci:", uci_script(c))
        print("implementation:", a)
        print("specification:", spec_check_alloc(c, parse_alloc(a[0])[1]) or "ok")
