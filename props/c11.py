"""C11 — draws by repetition and the 50-move rule are recognised (DESIGN.md section 6, C11).

Stages: prove (coq/Properties_C11.v) -> build harness / extracted model / engine ->
  (a) Search::canClaimDrawRep / canClaimDraw50 direct differential on boundary-biased tuples,
  (b) Game / ComputerPlayer / EngineControl::setupPosition / negaScout draw prefix on random
      legal games with reversible shuffles, histories crossing irreversible moves, clocks
      90..110 by FEN and by played moves, castling-right / e.p. near-repetitions,
  (c) UCI level: `position ... moves ...` + `go depth d searchmoves m`.
Every implementation verdict is compared with the extracted model (correspondence) AND with an
independent Spec oracle written here in Python (position identity = FEN placement + side +
castling + e.p. after fix-up; clock window; third occurrence; 50 moves with mate exception).
On a broken proof / correspondence the finder runs the implementation against the Spec only."""
import json
import os
import random
import shutil
import subprocess
import tempfile
import threading
from collections import deque
from concurrent.futures import ThreadPoolExecutor

from vlib import cbuild, coqbuild
from vlib.common import NCPU, VERIF, sh

PROP_FILE = "Properties_C11.v"
MATE0 = 32000
STATES = ["ALIVE", "WHITE_MATE", "BLACK_MATE", "WHITE_STALEMATE", "BLACK_STALEMATE", "DRAW_REP",
          "DRAW_50", "DRAW_NO_MATE", "DRAW_AGREE", "RESIGN_WHITE", "RESIGN_BLACK"]
START = "rnbqkbnr/pppppppp/8/8/8/8/PPPPPPPP/RNBQKBNR w KQkq - 0 1"

# start positions for the game stage; "{h}" is replaced by a half-move clock
START_FENS = [
    "rnbqkbnr/pppppppp/8/8/8/8/PPPPPPPP/RNBQKBNR w KQkq - {h} 1",
    "r3k2r/pppq1ppp/2npbn2/2b1p3/2B1P3/2NPBN2/PPPQ1PPP/R3K2R w KQkq - {h} 9",      # all castling rights, shuffles lose them
    "r3k2r/pppq1ppp/2npbn2/2b1p3/2B1P3/2NPBN2/PPPQ1PPP/R3K2R b KQkq - {h} 9",
    "r3k2r/8/8/8/8/8/8/R3K2R w KQkq - {h} 40",
    "r3k2r/8/8/8/8/8/8/R3K2R b Kq - {h} 40",
    "4k3/8/8/3pP3/8/8/8/4K3 w - d6 0 30",                                             # e.p. available
    "4k3/8/8/8/3pP3/8/8/4K2R b K e3 0 30",
    "rnbqkbnr/ppp1pppp/8/8/3pP3/8/PPPP1PPP/RNBQKBNR b KQkq e3 0 3",
    "8/8/8/8/3k4/8/2R1K3/8 w - - {h} 60",                                             # KRK
    "3k4/1R6/R7/8/8/8/8/1K6 w - - {h} 80",                                            # mate in one available (Ra8#)
    "7k/5Q2/6K1/8/8/8/8/8 w - - {h} 80",                                              # Qg7# / Qf8#
    "7k/8/5QK1/8/8/8/8/8 b - - {h} 80",
    "8/8/8/8/3k4/8/2B1K3/8 w - - {h} 60",                                             # dead material
    "8/8/8/8/3k4/5b2/2B1K3/8 w - - {h} 60",                                           # bishops, same / opposite colours
    "8/8/8/8/3k4/4b3/2B1K3/8 w - - {h} 60",
    "8/8/8/8/3k4/5n2/1N2K3/8 w - - {h} 60",
    "8/8/8/2q5/3k4/8/2Q1K3/8 w - - {h} 60",
    "6k1/5ppp/8/8/8/8/5PPP/3R2K1 w - - {h} 30",
    "r1bq1rk1/ppp2ppp/2n2n2/3pp3/1bB1P3/2NP1N2/PPP2PPP/R1BQ1RK1 w - - {h} 8",
    "k7/8/K7/8/8/8/8/7R w - - {h} 70",                                                # Rh8#
    "k7/2Q5/K7/8/8/8/8/8 b - - {h} 70",                                               # stalemate
    "8/8/8/8/8/5k2/4p3/4K3 w - - {h} 70",
]


# scripted openings of games: near-repetitions that differ only in castling rights / e.p. square,
# repetitions right after an irreversible move, mate delivered by the 100th half-move
SCRIPTS = [
    ("r3k2r/8/8/8/8/8/8/R3K2R w KQkq - 0 40", "e1e2 e8e7 e2e1 e7e8 e1e2 e8e7 e2e1 e7e8 e1e2 e8e7 e2e1 e7e8"),
    ("r3k2r/8/8/8/8/8/8/R3K2R w KQkq - 0 40", "a1b1 a8b8 b1a1 b8a8 a1b1 a8b8 b1a1 b8a8 h1g1 h8g8 g1h1 g8h8 h1g1 h8g8 g1h1 g8h8"),
    ("4k3/8/8/8/4p3/8/3P4/4K3 w - - 0 30", "d2d4 e8e7 e1e2 e7e8 e2e1 e8e7 e1e2 e7e8 e2e1 e8e7 e1e2 e7e8 e2e1"),
    ("4k3/4p3/8/3P4/8/8/8/4K3 b - - 5 30", "e7e5 e1e2 e8e7 e2e1 e7e8 e1e2 e8e7 e2e1 e7e8 e1e2 e8e7 e2e1 e7e8"),
    ("rnbqkbnr/pppppppp/8/8/8/8/PPPPPPPP/RNBQKBNR w KQkq - 0 1", "e2e4 g8f6 g1f3 f6g8 f3g1 g8f6 g1f3 f6g8 f3g1 g8f6 g1f3 f6g8 f3g1"),
    ("rnbqkbnr/pppppppp/8/8/8/8/PPPPPPPP/RNBQKBNR w KQkq - 0 1", "g1f3 g8f6 f3g1 f6g8 g1f3 g8f6 f3g1 f6g8 g1f3"),
    ("rnbqkbnr/pppppppp/8/8/8/8/PPPPPPPP/RNBQKBNR w KQkq - 0 1", "g1f3 g8f6 e2e4 f6g8 f3g1 g8f6 g1f3 f6g8 f3g1 g8f6 g1f3 f6g8 f3g1"),
    ("3k4/1R6/R7/8/8/8/8/1K6 w - - 95 80", "b1a1 d8c8 a1b1 c8d8 a6a8"),
    ("3k4/1R6/R7/8/8/8/8/1K6 w - - 96 80", "b1a1 d8c8 a1b1 c8d8 a6a8"),
    ("3k4/1R6/R7/8/8/8/8/1K6 w - - 97 80", "b1a1 d8c8 a6a8"),
    ("3k4/1R6/R7/8/8/8/8/1K6 w - - 99 80", "a6a8"),
    ("3k4/1R6/R7/8/8/8/8/1K6 w - - 98 80", "a6a8"),
    ("7k/8/5QK1/8/8/8/8/8 b - - 98 80", "h8g8 f6g7"),
    ("7k/8/5QK1/8/8/8/8/8 b - - 97 80", "h8g8 f6g7"),
    ("8/8/8/8/3k4/8/2R1K3/8 w - - 92 60", "c2c3 d4d5 c3c2 d5d4 c2c3 d4d5 c3c2 d5d4 c2c3"),
    # 1.e4 leaves an e.p. square although dxe3 is illegal (pawn pinned along the rank)
    ("8/8/8/8/k2p3R/8/4P3/4K3 w - - 0 1", "e2e4 a4a5 e1d1 a5a4 d1e1 a4a5 e1d1 a5a4 d1e1 a4a5 e1d1 a5a4"),
]

# =====================================================================================
# Spec oracle (independent of model and code)
# =====================================================================================
def rep_spec_py(hmc, h, lst, size, first_new):
    """Condition of C11_rep_iff on a hash list: candidates = indices inside the clock window, with the
    same side to move (even distance from `size`), at least 4 plies back."""
    lo = max(0, size - hmc)
    cand = [i for i in range(len(lst)) if lo <= i < size and i <= size - 4 and (size - i) % 2 == 0 and lst[i] == h]
    return any(i >= first_new for i in cand) or len(cand) >= 2


def fen_id(fen):
    return " ".join(fen.split()[:4])


def fen_material(fen):
    """(wq wr wp bq br bp wb wn bb bn dark light) from the placement field; a1 is a dark square"""
    rows = fen.split()[0].split("/")
    cnt = {}
    dark = light = 0
    for r, row in enumerate(rows):          # r = 0 is rank 8
        rank = 7 - r
        f = 0
        for ch in row:
            if ch.isdigit():
                f += int(ch)
                continue
            cnt[ch] = cnt.get(ch, 0) + 1
            if ch in "Bb":
                if (f + rank) % 2 == 0:
                    dark += 1
                else:
                    light += 1
            f += 1
    g = lambda c: cnt.get(c, 0)
    return (g("Q"), g("R"), g("P"), g("q"), g("r"), g("p"), g("B"), g("N"), g("b"), g("n"), dark, light)


def dead_material_spec(mat):
    wq, wr, wp, bq, br, bp, wb, wn, bb, bn, dark, light = mat
    if wq or wr or wp or bq or br or bp:
        return False
    if wb + wn + bb + bn <= 1:
        return True
    return wn + bn == 0 and (dark == 0 or light == 0)


class SpecGame:
    """The rules, position level.  positions: whole game (list of dicts), last = current."""

    def __init__(self, start):
        self.pos = [start]
        self.resign = None
        self.draw = None
        self.pending = False
        self.offers = []

    def cur(self):
        return self.pos[-1]

    def state(self):
        p = self.cur()
        if p["nlegal"] == 0:
            if p["check"]:
                return "BLACK_MATE" if p["white"] else "WHITE_MATE"
            return "WHITE_STALEMATE" if p["white"] else "BLACK_STALEMATE"
        if dead_material_spec(fen_material(p["fen"])):
            return "DRAW_NO_MATE"
        if self.resign:
            return self.resign
        return self.draw or "ALIVE"

    def have_offer(self):
        n = len(self.pos) - 1
        return n > 0 and self.offers[n - 1]

    def play(self, after):
        if self.state() != "ALIVE":
            return False
        n = len(self.pos) - 1
        self.offers = self.offers[:n] + [self.pending]
        self.pending = False
        self.pos.append(after)
        return True

    def occurrences_whole_game(self, target, after):
        allp = self.pos + ([after] if after else [])
        return sum(1 for p in allp if p["id"] == target["id"])

    def claim(self, kind, after):
        """kind 'rep' / '50'; after = position after the named move or None"""
        if self.state() != "ALIVE":
            return
        target = after or self.cur()
        if kind == "rep":
            valid = self.occurrences_whole_game(target, after) >= 3
        else:
            valid = target["hmc"] >= 100
        if valid:
            self.draw = "DRAW_REP" if kind == "rep" else "DRAW_50"
        else:
            self.pending = True
            if after:
                self.play(after)

    def offer(self, after):
        if self.state() != "ALIVE":
            return
        self.pending = True
        if after:
            self.play(after)

    def accept(self):
        if self.state() == "ALIVE" and self.have_offer():
            self.draw = "DRAW_AGREE"

    def do_resign(self):
        if self.state() == "ALIVE":
            self.resign = "RESIGN_WHITE" if self.cur()["white"] else "RESIGN_BLACK"

    def undo(self):
        if len(self.pos) > 1:
            self.pos.pop()
            self.pending = False
            self.draw = None
            self.resign = None

    def since_irreversible(self, hmc, upto=None):
        """earlier positions since the last irreversible move for a position with clock `hmc`
        that follows self.pos[:upto]"""
        prev = self.pos if upto is None else self.pos[:upto]
        k = max(0, min(len(prev), hmc))
        return prev[len(prev) - k:] if k > 0 else []

    def computer_claim(self, after):
        cur = self.cur()
        if cur["hmc"] >= 100:
            return 1
        if sum(1 for p in self.since_irreversible(cur["hmc"], len(self.pos) - 1) if p["id"] == cur["id"]) >= 2:
            return 2
        if after["hmc"] >= 100:
            return 3
        if sum(1 for p in self.since_irreversible(after["hmc"]) if p["id"] == after["id"]) >= 2:
            return 4
        return 0


# =====================================================================================
# (a) direct differential on canClaimDrawRep / canClaimDraw50
# =====================================================================================
SPECIAL_HASHES = ["0", "1", "ffffffffffffffff", "8000000000000000", "7fffffffffffffff"]


def gen_rep_tuple(rng, pool):
    r = rng.random()
    if r < 0.55:
        size = rng.randint(0, 12)
    elif r < 0.9:
        size = rng.randint(8, 40)
    elif r < 0.97:
        size = rng.randint(90, 112)
    else:
        size = rng.randint(150, 210)
    extra = rng.choice([0, 0, 1, 2, 3, 8])
    n = size + extra
    c = rng.random()
    if c < 0.30:
        hmc = rng.randint(0, 5)
    elif c < 0.65:
        hmc = size + rng.randint(-6, 4)
    elif c < 0.85:
        hmc = rng.randint(0, 2 * size + 2)
    elif c < 0.95:
        hmc = rng.choice([98, 99, 100, 101, 150, 255, 1000])
    else:
        hmc = -rng.randint(1, 5)
    f = rng.random()
    if f < 0.35:
        first_new = size
    elif f < 0.75:
        first_new = size - rng.randint(0, 8)
    elif f < 0.9:
        first_new = rng.randint(0, size) if size else 0
    else:
        first_new = rng.choice([0, size + 1, -1])
    k = rng.choice([1, 2, 2, 3, 4, 6, 12])
    univ = [rng.choice(pool) for _ in range(k)]
    h = univ[0]
    lst = [rng.choice(univ) for _ in range(n)] if rng.random() < 0.6 else [rng.choice(pool[:64]) for _ in range(n)]
    # forced occurrences of h at chosen distances from the current position (= index size)
    for _ in range(rng.choice([0, 1, 1, 2, 2, 3])):
        d = rng.choice([1, 2, 3, 4, 5, 6, 7, 8]) if rng.random() < 0.6 else rng.randint(1, max(1, size))
        if rng.random() < 0.35:
            d = max(1, hmc + rng.randint(-2, 2))          # around the window edge
        if 0 <= size - d < n:
            lst[size - d] = h
    return hmc, h, lst, size, first_new


def gen_rep_malformed(rng, pool):
    """outside the stated precondition 0 <= size <= length, but without out-of-bounds reads"""
    hmc, h, lst, size, first_new = gen_rep_tuple(rng, pool)
    if rng.random() < 0.5:
        return hmc, h, lst, -rng.randint(1, 6), first_new
    n = len(lst)
    return hmc, h, lst, n + rng.randint(1, 3), first_new


def rep_line(t):
    hmc, h, lst, size, first_new = t
    return "R %d %s %d %d %d %s" % (hmc, h, size, first_new, len(lst), " ".join(lst))


def run_lines(exe, lines, timeout=1800):
    rc, out, err = sh([exe], input="\n".join(lines) + "\n", timeout=timeout)
    res = out.split("\n")
    if res and res[-1] == "":
        res.pop()
    return rc, res, err


def stage_rep(ctx, cpp_exe, ml_exe, tuples, tag):
    """returns (model_disagreements, spec_failures); each entry a dict"""
    lines = [rep_line(t) for t in tuples]
    CH = 20000
    chunks = [lines[i:i + CH] for i in range(0, len(lines), CH)]
    with ThreadPoolExecutor(max_workers=NCPU) as ex:
        r1 = list(ex.map(lambda c: run_lines(cpp_exe, c), chunks))
        r2 = list(ex.map(lambda c: run_lines(ml_exe, c), chunks))
    cpp, ml = [], []
    crashed = []
    for (rc, res, err), c in zip(r1, chunks):
        if rc != 0 or len(res) != len(c):
            # answers are flushed line by line: the request after the last answer killed the harness
            if len(res) < len(c):
                crashed.append(c[len(res)])
                res = res + ["CRASH"] * (len(c) - len(res))
            else:
                raise RuntimeError("draw_harness failed on R batch: rc=%d %s" % (rc, err[-500:]))
        cpp += res
    for (rc, res, err), c in zip(r2, chunks):
        if rc != 0 or len(res) != len(c):
            raise RuntimeError("draw_driver failed on R batch: rc=%d %s" % (rc, err[-500:]))
        ml += res
    dis, bad = [], []
    for l in crashed:
        bad.append(dict(kind="rep", line=l, cpp="CRASH", spec="?", what="canClaimDrawRep crashes the harness (out-of-bounds read?) on " + l[:80]))
    for t, a, b in zip(tuples, cpp, ml):
        if a == "CRASH":
            continue
        hmc, h, lst, size, first_new = t
        m, s = b.split()
        ctx.evaluated()
        inb = 0 <= size <= len(lst)
        spec = rep_spec_py(hmc, h, lst, size, first_new)
        ctx.count("rep_%s_%s" % (tag, "true" if a == "1" else "false"))
        if inb:
            lo = max(0, size - hmc)
            ncand = len([i for i in range(lo, size - 3) if (size - i) % 2 == 0])
            nh = len([i for i in range(lo, size - 3) if (size - i) % 2 == 0 and lst[i] == h])
            ctx.count("rep_hits_%d" % min(nh, 3))
            if hmc == size or hmc == size - 4 or hmc in (3, 4, 5):
                ctx.count("rep_window_edge")
            if nh >= 1:
                ctx.nontrivial("R %d %s %d %d %s" % (hmc, h, size, first_new, ",".join(lst[:size])))
            if ("1" if spec else "0") != s:
                raise RuntimeError("python spec and extracted repSpecb differ on %s" % rep_line(t))
        if a != m:
            dis.append(dict(kind="rep", line=rep_line(t), cpp=a, model=m, spec=s))
        if inb and a != ("1" if spec else "0"):
            bad.append(dict(kind="rep", line=rep_line(t), cpp=a, spec="1" if spec else "0",
                            what="canClaimDrawRep(hmc=%d,size=%d,firstNew=%d) returns %s, Spec says %s" % (hmc, size, first_new, a, "1" if spec else "0")))
    return dis, bad


def shrink_rep(cpp_exe, ml_exe, line, against_spec):
    """shrink a failing R line: drop list prefix entries (shifting indices) and simplify hashes"""
    t = line.split()
    hmc, h, size, first_new, n = int(t[1]), t[2], int(t[3]), int(t[4]), int(t[5])
    lst = t[6:6 + n]

    def bad(hmc, h, lst, size, first_new):
        l = rep_line((hmc, h, lst, size, first_new))
        _, a, _ = run_lines(cpp_exe, [l])
        a = a or ["CRASH"]
        if against_spec:
            if not (0 <= size <= len(lst)):
                return False
            return a[0] != ("1" if rep_spec_py(hmc, h, lst, size, first_new) else "0")
        _, b, _ = run_lines(ml_exe, [l])
        return a[0] != b[0].split()[0]
    changed = True
    while changed:
        changed = False
        # drop the oldest entry
        while size > 0 and len(lst) > 0 and bad(hmc, h, lst[1:], size - 1, first_new - 1):
            lst, size, first_new = lst[1:], size - 1, first_new - 1
            changed = True
        # drop junk beyond size
        while len(lst) > max(size, 0) and bad(hmc, h, lst[:-1], size, first_new):
            lst = lst[:-1]
            changed = True
        # replace non-matching entries by "0", matching ones and h by "a"
        cand = ["a" if e == h else "0" for e in lst]
        if (cand != lst or h != "a") and bad(hmc, "a", cand, size, first_new):
            lst, h = cand, "a"
            changed = True
        if hmc > size + 1 and bad(size + 1, h, lst, size, first_new):
            hmc = size + 1
            changed = True
    return rep_line((hmc, h, lst, size, first_new))


# =====================================================================================
# (b) games through the real classes
# =====================================================================================
class Proc:
    def __init__(self, exe):
        self.p = subprocess.Popen([exe], stdin=subprocess.PIPE, stdout=subprocess.PIPE, stderr=subprocess.DEVNULL,
                                  text=True, bufsize=1)

    def ask(self, line):
        self.p.stdin.write(line + "\n")
        self.p.stdin.flush()
        r = self.p.stdout.readline()
        if not r:
            raise RuntimeError("draw_harness died on: %s" % line)
        return r.rstrip("\n")

    def close(self):
        try:
            self.p.stdin.close()
            self.p.wait(timeout=20)
        except Exception:
            self.p.kill()


def parse_posinfo(s):
    """'hmc inCheck nLegal hash | fen' -> dict"""
    parts = s.split(" | ")
    left, fen = parts[0], parts[1]
    t = left.split()
    return dict(hmc=int(t[0]), check=t[1] == "1", nlegal=int(t[2]), hash=t[3], fen=fen, id=fen_id(fen),
                white=fen.split()[1] == "w", raw=parts[2].strip() if len(parts) > 2 else t[3])


def parse_state(s):
    left, fen = s.split(" | ")
    t = left.split()
    d = parse_posinfo(" ".join(t[4:]) + " | " + fen)
    d.update(state=STATES[int(t[0])], pending=t[1] == "1", offer=t[2] == "1", nmoves=int(t[3]))
    return d


def reverse_uci(m):
    return m[2:4] + m[0:2]


def play_game(exe, seed, quick):
    """Drive one game; returns the log: list of (command tuple, cpp answer(s))."""
    rng = random.Random(seed)
    h = Proc(exe)
    log = []
    try:
        h.ask("gnew")
        plan = deque()
        forced = False
        if rng.random() < 0.2:
            fen, ms = rng.choice(SCRIPTS)
            plan.extend(("force", m) for m in ms.split())
            forced = True
        elif rng.random() < 0.8:
            fen = rng.choice(START_FENS)
            r = rng.random()
            hm = rng.randint(88, 99) if r < 0.35 else rng.randint(100, 110) if r < 0.45 else rng.randint(60, 95) if r < 0.6 else rng.randint(0, 12)
            fen = fen.replace("{h}", str(hm))
        else:
            fen = START
        ans = h.ask("gsetpos " + fen)
        st = parse_state(h.ask("gstate"))
        if fen_id(st["fen"]) != fen_id(fen):
            raise RuntimeError("start position rejected by Game: " + fen)
        log.append((("new",), dict(state=st)))
        picked = {}
        maxply = rng.choice([30, 60, 90, 140] if quick else [40, 80, 140, 220])
        nundo = 0
        for ply in range(maxply):
            if st["state"] != "ALIVE":
                # poke the finished game: everything but undo must be ignored
                for c in rng.sample(["rep", "50", "resign", "accept", "move"], 2):
                    mv = h.ask("gmoves").split()
                    if c == "move" and mv:
                        u = rng.choice(mv).split(":")[0]
                        aft = parse_posinfo(h.ask("gafter " + u))
                        ret = h.ask("gplay " + u)
                        st = parse_state(h.ask("gstate"))
                        log.append((("move", u, aft), dict(ret=ret, state=st)))
                    elif c in ("rep", "50"):
                        ret = h.ask("gdraw " + c)
                        st = parse_state(h.ask("gstate"))
                        log.append((("claim", c, None, None), dict(ret=ret, state=st)))
                    elif c == "resign":
                        ret = h.ask("gcmd resign")
                        st = parse_state(h.ask("gstate"))
                        log.append((("resign",), dict(ret=ret, state=st)))
                    elif c == "accept":
                        ret = h.ask("gcmd draw accept")
                        st = parse_state(h.ask("gstate"))
                        log.append((("accept",), dict(ret=ret, state=st)))
                if st["nmoves"] > 0 and nundo < 3 and rng.random() < 0.7:
                    nundo += 1
                    ret = h.ask("gcmd undo")
                    st = parse_state(h.ask("gstate"))
                    log.append((("undo",), dict(ret=ret, state=st)))
                    plan.clear()
                    continue
                break
            moves = [m.split(":") for m in h.ask("gmoves").split()]
            moves = [(u, int(c)) for u, c in moves]
            rev = [u for u, c in moves if c > 0]
            legal = set(u for u, c in moves)
            # ---- choose the move ------------------------------------------------------
            def from_plan():
                while plan:
                    kind, k = plan.popleft()
                    if kind == "force":
                        if k in legal:
                            return k
                        plan.clear()
                    elif kind == "pick":
                        if rev:
                            picked[k] = rng.choice(rev)
                            return picked[k]
                        plan.clear()
                    elif kind == "zero":
                        z = [x for x, c in moves if c == 0]
                        if z:
                            return rng.choice(z)
                    else:
                        base = picked.get(k)
                        cand = reverse_uci(base) if (base and kind == "rev") else base
                        if cand in legal:
                            return cand
                        plan.clear()
                return None
            u = from_plan()
            if u is None and st["hmc"] >= 96 and len(moves) <= 30 and rng.random() < 0.6:
                # near the 50-move limit: look for a mating move (mate by the 100th half-move)
                mates = []
                for x, c in moves:
                    pa = parse_posinfo(h.ask("gafter " + x))
                    if pa["check"] and pa["nlegal"] == 0:
                        mates.append(x)
                if mates:
                    u = rng.choice(mates)
            if u is None:
                r = rng.random()
                if r < 0.22 and rev:
                    reps = rng.choice([1, 2, 2, 3])
                    seq = [("pick", 0), ("pick", 1)]
                    for i in range(reps):
                        seq += [("rev", 0), ("rev", 1)]
                        if i + 1 < reps or rng.random() < 0.5:
                            seq += [("fwd", 0), ("fwd", 1)]
                    if rng.random() < 0.3:
                        seq = [("zero", 0)] + seq
                    if rng.random() < 0.2:
                        seq = seq[:rng.randint(3, len(seq))]
                    picked.clear()
                    plan.extend(seq)
                    u = from_plan()
                if u is None:
                    if rev and (st["hmc"] >= 80 or r < 0.6):
                        u = rng.choice(rev)
                    else:
                        u = rng.choice(moves)[0]
            aft = parse_posinfo(h.ask("gafter " + u))
            # ---- side observations: history list, computer claim ------------------------
            if rng.random() < 0.45 or st["hmc"] >= 97:
                hist = h.ask("ghist").split()[1:]
                cl = h.ask("gclaim " + u)
                log.append((("cpclaim", u, aft), dict(hist=hist, claim=cl)))
            # ---- action -------------------------------------------------------------------
            a = rng.random()
            near = st["hmc"] >= 96
            if a < (0.30 if near else 0.25 if (forced and plan) else 0.10):
                kind = rng.choice(["rep", "50"]) if not near else rng.choice(["rep", "50", "50"])
                if rng.random() < 0.6:
                    ret = h.ask("gdraw %s %s" % (kind, u))
                    st = parse_state(h.ask("gstate"))
                    log.append((("claim", kind, u, aft), dict(ret=ret, state=st)))
                else:
                    ret = h.ask("gdraw " + kind)
                    st = parse_state(h.ask("gstate"))
                    log.append((("claim", kind, None, None), dict(ret=ret, state=st)))
            elif a < 0.13:
                ret = h.ask("gdraw offer " + u)
                st = parse_state(h.ask("gstate"))
                log.append((("offer", u, aft), dict(ret=ret, state=st)))
            elif a < 0.16:
                ret = h.ask("gcmd draw accept")
                st = parse_state(h.ask("gstate"))
                log.append((("accept",), dict(ret=ret, state=st)))
            elif a < 0.165:
                ret = h.ask("gcmd resign")
                st = parse_state(h.ask("gstate"))
                log.append((("resign",), dict(ret=ret, state=st)))
            elif a < 0.18 and st["nmoves"] > 0:
                ret = h.ask("gcmd undo")
                st = parse_state(h.ask("gstate"))
                log.append((("undo",), dict(ret=ret, state=st)))
                plan.clear()
            else:
                ret = h.ask("gplay " + u)
                st = parse_state(h.ask("gstate"))
                log.append((("move", u, aft), dict(ret=ret, state=st)))
    finally:
        h.close()
    return dict(seed=seed, fen=fen, log=log)


def abs_line(p, ids):
    i = ids.setdefault(p["id"], len(ids) + 1)
    return "%d %d %d %d %d %s" % (i, 1 if p["white"] else 0, p["hmc"], 1 if p["check"] else 0, p["nlegal"],
                                  " ".join(str(x) for x in fen_material(p["fen"])))


def check_game(ctx, g, ml_exe):
    """Spec (python, position level) and model (extracted, abstract level) against the logged
    implementation answers.  Returns (model_disagreements, spec_failures)."""
    log = g["log"]
    ids = {}
    hash2id = {}
    start = log[0][1]["state"]
    spec = SpecGame(start)
    mlines = ["GN " + abs_line(start, ids)]
    mexp = [("state", start, None)]
    bad = []
    nontriv = []

    def note_pos(p):
        ids.setdefault(p["id"], len(ids) + 1)
        prev = hash2id.setdefault(p["hash"], p["id"])
        if prev != p["id"]:
            bad.append(dict(kind="game", what="two different positions with the same Zobrist key %s" % p["hash"], step=-1))
    note_pos(start)
    for step, (cmd, res) in enumerate(log[1:], 1):
        k = cmd[0]
        if k == "cpclaim":
            u, aft = cmd[1], cmd[2]
            note_pos(aft)
            cur = spec.cur()
            exp = spec.computer_claim(aft)
            got = res["claim"]
            code = 0 if got == "-" else 1 if got == "draw 50" else 2 if got == "draw rep" else 3 if got.startswith("draw 50 ") else 4 if got.startswith("draw rep ") else -1
            ctx.count("cpclaim_%d" % code)
            if code != exp:
                bad.append(dict(kind="game", step=step, what="ComputerPlayer::canClaimDraw says %r, Spec expects code %d (1=draw 50, 2=draw rep, 3=draw 50 move, 4=draw rep move, 0=none)" % (got, exp)))
            # history list = positions since the last zeroing move
            exp_hist = [p["hash"] for p in spec.since_irreversible(cur["hmc"], len(spec.pos) - 1)]
            if cur["hmc"] <= len(spec.pos) - 1 or True:
                if res["hist"] != exp_hist:
                    bad.append(dict(kind="game", step=step, what="Game::getHistory differs from the positions since the last zeroing move"))
            lst = res["hist"] + ["0"] * 3
            mlines.append("C %d %s %d %d %s %d %s" % (cur["hmc"], cur["hash"], len(res["hist"]), aft["hmc"], aft["hash"], len(lst), " ".join(lst)))
            mexp.append(("claim", code, step))
            if code in (2, 4):
                nontriv.append("claim%d:%s" % (code, cur["id"]))
            continue
        if k == "move":
            aft = cmd[2]
            note_pos(aft)
            ok = spec.play(aft)
            if (res["ret"] == "1") != ok:
                bad.append(dict(kind="game", step=step, what="move %s accepted=%s, Spec says %s" % (cmd[1], res["ret"], ok)))
            mlines.append("GM " + abs_line(aft, ids))
        elif k == "claim":
            kind, u, aft = cmd[1], cmd[2], cmd[3]
            if aft:
                note_pos(aft)
            before = spec.state()
            tgt = aft or spec.cur()
            occ = spec.occurrences_whole_game(tgt, aft)
            spec.claim(kind, aft)
            ctx.count("claim_%s_%s" % (kind, "accepted" if res["state"]["state"] in ("DRAW_REP", "DRAW_50") and before == "ALIVE" else "rejected"))
            if before == "ALIVE":
                if kind == "rep":
                    ctx.count("rep_claim_occurrences_%d" % min(occ, 4))
                    if occ >= 2:
                        nontriv.append("repclaim:%d:%s:%d" % (occ, tgt["id"], len(spec.pos)))
                else:
                    ctx.count("fifty_claim_hmc_%s" % ("lt99" if tgt["hmc"] < 99 else "gt101" if tgt["hmc"] > 101 else str(tgt["hmc"])))
                    if 98 <= tgt["hmc"] <= 101:
                        nontriv.append("50claim:%d:%s" % (tgt["hmc"], tgt["id"]))
            mlines.append(("GR " if kind == "rep" else "G5 ") + ("1 " + abs_line(aft, ids) if aft else "0"))
        elif k == "offer":
            aft = cmd[2]
            note_pos(aft)
            spec.offer(aft)
            mlines.append("GO 1 " + abs_line(aft, ids))
        elif k == "accept":
            spec.accept()
            mlines.append("GA")
        elif k == "resign":
            spec.do_resign()
            mlines.append("GS")
        elif k == "undo":
            spec.undo()
            mlines.append("GU")
        st = res["state"]
        mexp.append(("state", st, step))
        # ---- implementation vs Spec ----
        exp_state = spec.state()
        ctx.count("state_" + st["state"])
        if st["state"] != exp_state:
            bad.append(dict(kind="game", step=step, what="game state %s after %s, Spec says %s" % (st["state"], cmd[:3], exp_state)))
        elif st["id"] != spec.cur()["id"] or st["hmc"] != spec.cur()["hmc"]:
            bad.append(dict(kind="game", step=step, what="position after %s is %s, Spec expects %s" % (cmd[:3], st["fen"], spec.cur()["fen"])))
        elif st["pending"] != spec.pending or st["offer"] != spec.have_offer() or st["nmoves"] != len(spec.pos) - 1:
            bad.append(dict(kind="game", step=step, what="draw-offer flags / move count differ from the Spec after %s" % (cmd[:3],)))
        if st["state"] not in ("ALIVE",):
            nontriv.append("end:%s:%s" % (st["state"], st["id"]))
    # ---- implementation vs extracted model ----
    rc, mres, err = run_lines(ml_exe, mlines)
    dis = []
    if rc != 0 or len(mres) != len(mlines):
        dis.append(dict(kind="game", step=-1, what="draw_driver failed: rc=%d %s" % (rc, err[-300:])))
        return dis, bad, nontriv
    for (kind, exp, step), line, got in zip(mexp, mlines, mres):
        if kind == "claim":
            if str(exp) != got.strip():
                dis.append(dict(kind="game", step=step, what="cpCanClaimDraw model=%s implementation=%s" % (got, exp), line=line))
            continue
        t = got.split()
        want = "%s %d %d %d %d %d" % ("1", STATES.index(exp["state"]), 1 if exp["pending"] else 0, 1 if exp["offer"] else 0, exp["nmoves"], ids[exp["id"]])
        have = "1 " + " ".join(t[1:6])
        if want != have:
            dis.append(dict(kind="game", step=step, what="model '%s' vs implementation '%s'" % (have, want), line=line))
    return dis, bad, nontriv


def stage_games(ctx, cpp_exe, ml_exe, seeds):
    with ThreadPoolExecutor(max_workers=min(NCPU, 12)) as ex:
        games = list(ex.map(lambda s: play_game(cpp_exe, s, ctx.quick), seeds))
    dis, bad = [], []
    for g in games:
        d, b, nt = check_game(ctx, g, ml_exe)
        ctx.evaluated(len(g["log"]))
        ctx.count("games")
        ctx.count("game_steps", len(g["log"]))
        for key in nt:
            ctx.nontrivial(key)
        for x in d:
            x.update(seed=g["seed"], fen=g["fen"])
        for x in b:
            x.update(seed=g["seed"], fen=g["fen"])
        dis += d
        bad += b
    return games, dis, bad


class NullCtx:
    def count(self, *a, **k): pass
    def nontrivial(self, *a, **k): pass
    def evaluated(self, *a, **k): pass


def exec_cmds(exe, fen, cmds):
    """re-execute a fixed command list (same log format as play_game)"""
    h = Proc(exe)
    log = []
    try:
        h.ask("gnew")
        h.ask("gsetpos " + fen)
        st = parse_state(h.ask("gstate"))
        if fen_id(st["fen"]) != fen_id(fen):
            return None
        log.append((("new",), dict(state=st)))
        for cmd in cmds:
            k = cmd[0]
            u = cmd[1] if k in ("move", "offer", "cpclaim") else cmd[2] if k == "claim" else None
            aft = None
            if u:
                a = h.ask("gafter " + u)
                if a == "illegal":
                    return None
                aft = parse_posinfo(a)
            if k == "cpclaim":
                hist = h.ask("ghist").split()[1:]
                log.append((("cpclaim", u, aft), dict(hist=hist, claim=h.ask("gclaim " + u))))
                continue
            if k == "move":
                ret = h.ask("gplay " + u)
                c2 = ("move", u, aft)
            elif k == "claim":
                ret = h.ask("gdraw %s%s" % (cmd[1], " " + u if u else ""))
                c2 = ("claim", cmd[1], u, aft)
            elif k == "offer":
                ret = h.ask("gdraw offer " + u)
                c2 = ("offer", u, aft)
            elif k == "accept":
                ret = h.ask("gcmd draw accept")
                c2 = ("accept",)
            elif k == "resign":
                ret = h.ask("gcmd resign")
                c2 = ("resign",)
            else:
                ret = h.ask("gcmd undo")
                c2 = ("undo",)
            log.append((c2, dict(ret=ret, state=parse_state(h.ask("gstate")))))
    finally:
        h.close()
    return dict(seed=0, fen=fen, log=log)


def shrink_game(cpp_exe, ml_exe, g, step):
    """shorten a failing game: keep only the commands needed, restart from the latest position
    from which the failure still shows"""
    def fails(fen, cmds):
        g2 = exec_cmds(cpp_exe, fen, cmds)
        if g2 is None or len(g2["log"]) < 2:
            return None
        d, b, _ = check_game(NullCtx(), g2, ml_exe)
        b = [x for x in b if x.get("step") == len(g2["log"]) - 1]
        return (g2, b[0]) if b else None
    cmds = [c for c, _ in g["log"][1:step + 1]]
    best = fails(g["fen"], cmds)
    if not best:
        return None
    log = best[0]["log"]
    last_undo = max([i for i in range(1, len(log)) if log[i][0][0] == "undo"] + [0])
    # restart from the latest position (after the last undo) from which the failure still shows
    for i in range(len(log) - 2, last_undo, -1):
        if "state" not in log[i][1] or log[i][1]["state"]["state"] != "ALIVE":
            continue
        r = fails(log[i][1]["state"]["fen"], [c for c, _ in log[i + 1:]])
        if r:
            best = r
            break
    # turn claims / offers that ended up playing their move into plain moves, drop the rest
    log = best[0]["log"]
    if not any(c[0] == "undo" for c, _ in log):
        slim, n = [], 0
        for c, res in log[1:-1]:
            if "state" in res and res["state"]["nmoves"] == n + 1:
                u = c[1] if c[0] in ("move", "offer") else c[2]
                slim.append(("move", u, None))
                n += 1
        slim.append(log[-1][0])
        r = fails(best[0]["fen"], slim)
        if r:
            best = r
    return best


def game_replay_script(g, upto):
    """harness commands reproducing a logged game up to (and including) log step `upto`"""
    out = ["gnew", "gsetpos " + g["fen"]]
    for cmd, res in g["log"][1:upto + 1]:
        k = cmd[0]
        if k == "move":
            out.append("gplay " + cmd[1])
        elif k == "claim":
            out.append("gdraw %s%s" % (cmd[1], " " + cmd[2] if cmd[2] else ""))
        elif k == "offer":
            out.append("gdraw offer " + cmd[1])
        elif k == "accept":
            out.append("gcmd draw accept")
        elif k == "resign":
            out.append("gcmd resign")
        elif k == "undo":
            out.append("gcmd undo")
        elif k == "cpclaim" and cmd is g["log"][upto][0]:
            out += ["ghist", "gclaim " + cmd[1]]
    out.append("gstate")
    return out


# ---- setupPosition, negaScout prefix on the positions of the games ----------------------
def played_line(g):
    """(moves, positions) actually on the board at the end of each log step; yields after every step
    (step index, cmd, res, moves so far, positions so far).  Positions carry 'raw' = the Zobrist
    key Position::makeMove produced before the e.p. fix-up (what the UCI layer stores)."""
    moves, poss = [], [dict(g["log"][0][1]["state"])]
    out = []
    for i, (cmd, res) in enumerate(g["log"][1:], 1):
        k = cmd[0]
        out.append((i, cmd, res, list(moves), list(poss)))
        if k == "undo":
            if moves and res["state"]["nmoves"] == len(moves) - 1:
                moves.pop()
                poss.pop()
        elif k in ("move", "claim", "offer") and res["state"]["nmoves"] == len(moves) + 1:
            u = cmd[1] if k != "claim" else cmd[2]
            aft = cmd[2] if k != "claim" else cmd[3]
            p = dict(res["state"])
            p["raw"] = aft["raw"] if aft else p["hash"]
            moves.append(u)
            poss.append(p)
    return out, moves, poss


def ep_affected(poss):
    return any(p.get("raw", p["hash"]) != p["hash"] for p in poss)


def game_lines(games, rng, n_setup, n_prefix):
    """requests for EngineControl::setupPosition and for the draw prefix of negaScout built
    from the move sequences / positions of the played games"""
    setup, prefix = [], []
    seqs = []
    for g in games:
        if any(c[0] == "undo" for c, _ in g["log"]):
            continue            # the move list of the UCI command must be a straight line
        _, moves, poss = played_line(g)
        if moves:
            seqs.append((g["fen"], moves, poss))
    if not seqs:
        return setup, prefix
    for _ in range(n_setup):
        fen, moves, poss = rng.choice(seqs)
        k = rng.randint(0, len(moves))
        setup.append(("S %d %s | %s" % (k, " ".join(moves[:k]), fen), poss[:k + 1]))
    for _ in range(n_prefix):
        fen, moves, poss = rng.choice(seqs)
        k = rng.randint(0, len(moves))
        cur = poss[k]
        # hash list: the real history since the last zeroing move (sometimes extended by a
        # fictitious search path that revisits earlier positions), real clock
        w = max(0, min(k, cur["hmc"]))
        hist = [p["hash"] for p in poss[k - w:k]]
        first_new = len(hist)
        r = rng.random()
        if r < 0.3 and len(hist) >= 4:
            first_new = rng.randint(0, len(hist))
        elif r < 0.4:
            first_new = len(hist) - rng.randint(0, 4)
        ply = rng.choice([1, 1, 2, 3, 5, 8])
        depth = 0      # quiescence only: below the prefix nothing looks at the history
        prefix.append(("P %d %d %d %d %d %s | %s" % (ply, depth, first_new, len(hist), len(hist), " ".join(hist), cur["fen"]),
                       dict(cur=cur, hist=hist, first_new=first_new, ply=ply, poss=poss[:k])))
    return setup, prefix


def stage_setup_prefix(ctx, cpp_exe, ml_exe, games, rng, n_setup, n_prefix):
    setup, prefix = game_lines(games, rng, n_setup, n_prefix)
    dis, bad = [], []
    # ---- setupPosition ----
    CH = 200
    chunks = [setup[i:i + CH] for i in range(0, len(setup), CH)]
    with ThreadPoolExecutor(max_workers=NCPU) as ex:
        res = list(ex.map(lambda c: run_lines(cpp_exe, [x[0] for x in c], 900), chunks))
    mlines, mexp = [], []
    for c, (rc, out, err) in zip(chunks, res):
        if rc != 0 or len(out) != len(c):
            raise RuntimeError("draw_harness failed on S batch: rc=%d %s" % (rc, err[-500:]))
        for (line, poss), o in zip(c, out):
            ctx.evaluated()
            if o.count("|") != 3:
                raise RuntimeError("draw_harness: unexpected answer %r to %r" % (o, line))
            head, lst, steps, stepsf = [x.strip() for x in o.split("|")]
            size, hmc = [int(x) for x in head.split()]
            lst = lst.split()
            st = steps.split()
            # Spec: hashes of the positions since the last zeroing move (excluding the current one)
            cur = poss[-1]
            k = len(poss) - 1
            zero_idx = [j for j in range(1, k + 1) if poss[j]["hmc"] == 0]
            z = zero_idx[-1] if zero_idx else 0
            exp = [p["hash"] for p in poss[z:k]]
            if len(exp) > 100:
                exp = []
            ctx.count("setup_len_%s" % ("0" if not exp else "1-10" if len(exp) <= 10 else "11-100"))
            if zero_idx and exp:
                ctx.nontrivial("S:%s:%d" % (line[:60], k))
            stf = stepsf.split()
            spec_ok = not (lst != exp or size != len(exp) or hmc != cur["hmc"])
            mlines.append("S %d %d %s" % (poss[0]["hmc"], len(stf) // 2, " ".join(stf)))
            mlines.append("S %d %d %s" % (poss[0]["hmc"], len(st) // 2, " ".join(st)))
            mexp.append((line, "%d %d | %s" % (size, hmc, " ".join(lst)), spec_ok, st != stf, o, exp))
    rc, mres, err = run_lines(ml_exe, mlines)
    if rc != 0 or len(mres) != len(mlines):
        raise RuntimeError("draw_driver failed on S batch: rc=%d %s" % (rc, err[-500:]))
    for i, (line, want, spec_ok, ep_diff, o, exp) in enumerate(mexp):
        have = []
        for got in (mres[2 * i], mres[2 * i + 1]):      # model on fixed-up keys, model on raw keys
            parts = [x.strip() for x in got.split("|")]
            have.append(("%s | %s" % (parts[0], parts[1])).strip())
        if want.strip() not in have:
            dis.append(dict(kind="setup", line=line, what="setupPosition model '%s' vs implementation '%s'" % (have[0], want)))
        if not spec_ok:
            if ep_diff and want.strip() == have[1] and have[0] != have[1]:
                # the list is right for the keys makeMove produced, but those contain an e.p. square
                # nobody can capture on: instance of the finding confirmed by the canonical probe
                ctx.count("setup_history_with_unfixed_ep_square")
            else:
                bad.append(dict(kind="setup", line=line, cpp=o, what="setupPosition list/size/clock differs from the hashes since the last zeroing move", expected=exp))
    # ---- negaScout draw prefix ----
    chunks = [prefix[i:i + CH] for i in range(0, len(prefix), CH)]
    with ThreadPoolExecutor(max_workers=NCPU) as ex:
        res = list(ex.map(lambda c: run_lines(cpp_exe, [x[0] for x in c], 900), chunks))
    mlines, mexp = [], []
    for c, (rc, out, err) in zip(chunks, res):
        if rc != 0 or len(out) != len(c):
            raise RuntimeError("draw_harness failed on P batch: rc=%d %s" % (rc, err[-500:]))
        for (line, info), o in zip(c, out):
            ctx.evaluated()
            t = o.split()
            if t[0] == "EXC":
                raise RuntimeError("draw_harness: %s on %s" % (o, line))
            r1, r2, chk, nleg = int(t[0]), int(t[1]), t[2] == "1", int(t[3])
            cur, hist, fn, ply = info["cur"], info["hist"], info["first_new"], info["ply"]
            mated = chk and nleg == 0
            # Spec at position level
            if cur["hmc"] >= 100:
                exp = -(MATE0 - (ply + 1)) if mated else 0
                ctx.count("prefix_fifty_%s" % ("mated" if mated else "draw"))
                ctx.nontrivial("P50:%s:%d" % (cur["id"], cur["hmc"]))
            else:
                occ = [i for i, p in enumerate(info["poss"][len(info["poss"]) - len(hist):]) if p["id"] == cur["id"]]
                if len(occ) >= 2:
                    exp = 0
                    ctx.count("prefix_third_occurrence")
                    ctx.nontrivial("P3:%s:%d:%d" % (cur["id"], len(hist), cur["hmc"]))
                elif occ and occ[-1] >= fn:
                    exp = 0
                    ctx.count("prefix_second_occurrence_in_tree")
                    ctx.nontrivial("P2:%s:%d:%d" % (cur["id"], len(hist), fn))
                else:
                    exp = None
                    ctx.count("prefix_continue")
            if exp is not None and r1 != exp:
                bad.append(dict(kind="prefix", line=line, cpp=o, what="negaScout returns %d at ply %d, Spec says %d" % (r1, ply, exp)))
            if exp is None and r1 != r2:
                bad.append(dict(kind="prefix", line=line, cpp=o, what="negaScout result depends on a history that contains no repetition (%d vs %d with empty history)" % (r1, r2)))
            mlines.append("P %d %d %d %d %s %d %d %d %s" % (cur["hmc"], 1 if chk else 0, 1 if nleg > 0 else 0, ply, cur["hash"], len(hist), fn, len(hist), " ".join(hist)))
            mexp.append((line, r1, r2))
    rc, mres, err = run_lines(ml_exe, mlines)
    if rc != 0 or len(mres) != len(mlines):
        raise RuntimeError("draw_driver failed on P batch: rc=%d %s" % (rc, err[-500:]))
    for (line, r1, r2), got in zip(mexp, mres):
        m = got.split("|")[0].split()
        if m[0] == "S":
            if int(m[1]) != r1:
                dis.append(dict(kind="prefix", line=line, what="draw prefix model Score %s vs implementation %d" % (m[1], r1)))
        elif m[0] == "C":
            if r1 != r2:
                dis.append(dict(kind="prefix", line=line, what="model says continue, implementation result depends on the history (%d vs %d)" % (r1, r2)))
        else:
            dis.append(dict(kind="prefix", line=line, what="model error"))
    return dis, bad


# ---- insufficient material on synthetic placements -------------------------------------------
def gen_material_fen(rng):
    sq = list(range(64))
    rng.shuffle(sq)
    board = {}
    board[sq.pop()] = "K"
    # black king not adjacent to the white king
    wk = [s for s in board][0]
    while True:
        s = sq.pop()
        if max(abs(s % 8 - wk % 8), abs(s // 8 - wk // 8)) > 1:
            board[s] = "k"
            break
    r = rng.random()
    if r < 0.55:
        pieces = [rng.choice("Bb") for _ in range(rng.randint(0, 4))]
        if rng.random() < 0.5:       # force one square colour
            col = rng.randint(0, 1)
            sq = [s for s in sq if (s % 8 + s // 8) % 2 == col]
    elif r < 0.8:
        pieces = [rng.choice("BbNn") for _ in range(rng.randint(0, 3))]
    else:
        pieces = [rng.choice("BbNnQqRrPp") for _ in range(rng.randint(1, 3))]
    for pc in pieces:
        cand = [s for s in sq if not (pc in "Pp" and s // 8 in (0, 7))]
        if not cand:
            break
        s = cand[0]
        sq.remove(s)
        board[s] = pc
    rows = []
    for rank in range(7, -1, -1):
        row, e = "", 0
        for f in range(8):
            p = board.get(rank * 8 + f)
            if p:
                row += (str(e) if e else "") + p
                e = 0
            else:
                e += 1
        rows.append(row + (str(e) if e else ""))
    return "/".join(rows) + " %s - - 0 1" % rng.choice("wb")


def stage_material(ctx, cpp_exe, ml_exe, rng, n):
    fens = [gen_material_fen(rng) for _ in range(n)]
    rc, out, err = run_lines(cpp_exe, ["M " + f for f in fens])
    if rc != 0 or len(out) != len(fens):
        raise RuntimeError("draw_harness failed on M batch")
    keep = []
    for f, o in zip(fens, out):
        t = o.split(" | ")
        if len(t) == 2 and fen_id(t[1]) == fen_id(f):      # FEN accepted (side not to move not in check ...)
            keep.append((f, t[0].split()[0]))
    rc, mres, err = run_lines(ml_exe, ["M " + " ".join(str(x) for x in fen_material(f)) for f, _ in keep])
    if rc != 0 or len(mres) != len(keep):
        raise RuntimeError("draw_driver failed on M batch")
    dis, bad = [], []
    for (f, a), m in zip(keep, mres):
        ctx.evaluated()
        spec = dead_material_spec(fen_material(f))
        ctx.count("material_%s" % ("dead" if a == "1" else "live"))
        mat = fen_material(f)
        if sum(mat[6:10]) >= 2:
            ctx.nontrivial("M:" + f.split()[0])
        if a != m:
            dis.append(dict(kind="material", line="M " + f, what="insufficientMaterial model %s vs implementation %s" % (m, a)))
        if a != ("1" if spec else "0"):
            bad.append(dict(kind="material", line="M " + f, what="insufficientMaterial=%s, Spec (no Q/R/P and (<=1 minor or only same-coloured bishops)) says %s" % (a, spec)))
    return dis, bad


# =====================================================================================
# (c) UCI level
# =====================================================================================
class Engine:
    def __init__(self, exe):
        self.p = subprocess.Popen([exe], stdin=subprocess.PIPE, stdout=subprocess.PIPE, stderr=subprocess.DEVNULL,
                                  text=True, bufsize=1)
        self.send("uci")
        self.wait("uciok")
        self.send("setoption name Hash value 1")
        self.send("isready")
        self.wait("readyok")

    def send(self, s):
        self.p.stdin.write(s + "\n")
        self.p.stdin.flush()

    def wait(self, tok, timeout=60):
        lines = []
        timer = threading.Timer(timeout, self.p.kill)
        timer.start()
        try:
            while True:
                l = self.p.stdout.readline()
                if not l:
                    raise RuntimeError("engine died waiting for %s" % tok)
                lines.append(l.strip())
                if l.startswith(tok):
                    return lines
        finally:
            timer.cancel()

    def score(self, fen, moves, m, depth):
        self.send("ucinewgame")
        self.send("isready")
        self.wait("readyok")
        self.send("position fen %s%s" % (fen, (" moves " + " ".join(moves)) if moves else ""))
        self.send("go depth %d searchmoves %s" % (depth, m))
        lines = self.wait("bestmove")
        sc = None
        for l in lines:
            t = l.split()
            if t and t[0] == "info" and "score" in t and "pv" in t:
                i = t.index("score")
                sc = (t[i + 1], int(t[i + 2]))
                if len(t) > i + 3 and t[i + 3] in ("lowerbound", "upperbound"):
                    sc = sc + (t[i + 3],)
        return sc, lines[-1]

    def close(self):
        try:
            self.send("quit")
            self.p.wait(timeout=20)
        except Exception:
            self.p.kill()


EP_PROBE = ("8/8/8/8/k2p3R/8/4P3/4K3 w - - 0 1", "e2e4 a4a5 e1d1 a5a4 d1e1 a4a5 e1d1 a5a4", "d1e1")
EP_PROBE_KEY = "uci-history-ep-square-not-fixed-up:" + (EP_PROBE[0] + ":" + EP_PROBE[1] + ":" + EP_PROBE[2]).replace(" ", "_")


def probe_ep(eng_exe):
    """Canonical probe: 1.e4 sets an e.p. square although dxe3 is illegal (pinned along the rank);
    the position then recurs twice without e.p. square: by the rules the third occurrence."""
    e = Engine(eng_exe)
    try:
        sc, bm = e.score(EP_PROBE[0], EP_PROBE[1].split(), EP_PROBE[2], 1)
    finally:
        e.close()
    return sc


def uci_cases(games, rng, n):
    """(start fen, moves so far, positions so far, root move, position after) with the after-position
    known from the logs: every logged step carrying an 'aft' is a candidate"""
    cases = []
    for g in games:
        if any(c[0] == "undo" for c, _ in g["log"]):
            continue
        steps, _, _ = played_line(g)
        for i, cmd, res, moves, poss in steps:
            k = cmd[0]
            aft = cmd[2] if k in ("move", "offer", "cpclaim") else cmd[3] if k == "claim" else None
            u = cmd[1] if k in ("move", "offer", "cpclaim") else cmd[2] if k == "claim" else None
            if aft and u and poss[-1]["nlegal"] > 0:
                cases.append((g["fen"], moves, poss, u, aft))

    def interest(c):
        fen, moves, poss, u, aft = c
        w = max(0, min(len(poss), aft["hmc"]))
        occ = sum(1 for p in poss[len(poss) - w:] if p["id"] == aft["id"])
        return 3 if occ >= 2 else 2 if aft["hmc"] >= 99 else 1 if occ == 1 else 0
    rng.shuffle(cases)
    cases.sort(key=lambda c: -interest(c))
    hot = [c for c in cases if interest(c) == 3][: n // 3] + [c for c in cases if interest(c) == 2][: n // 3]
    warm = [c for c in cases if interest(c) == 1][: n // 6]
    cold = [c for c in cases if interest(c) == 0][: max(0, n - len(hot) - len(warm))]
    return hot + warm + cold


def stage_uci(ctx, eng_exe, ml_exe, games, rng, n):
    cases = uci_cases(games, rng, n)
    sc = probe_ep(eng_exe)
    ctx.evaluated()
    ep_ok = sc is not None and tuple(sc[:2]) == ("cp", 0)
    ctx.count("ep_probe_" + ("ok" if ep_ok else "fails"))
    if not ep_ok:
        ctx.violation("UCI history: the position after a double pawn push keeps an en-passant square that cannot be captured on "
                      "(EngineControl::setupPosition does not call fixupEPSquare), so its later recurrences get a different key and the "
                      "third occurrence is missed: engine reports %s instead of cp 0; Game/ComputerPlayer (console mode) accept the claim" % (sc,),
                      {"failing_input": dict(kind="uci", cmd="position fen %s moves %s ; go depth 1 searchmoves %s" % EP_PROBE,
                                             what="third occurrence not scored as draw (unfixed e.p. square in the history)")},
                      key=EP_PROBE_KEY)
        # histories containing such a position are instances of the same finding: left out below
        k0 = len(cases)
        cases = [c for c in cases if not ep_affected(c[2][max(0, len(c[2]) - max(0, c[4]["hmc"])):])]
        ctx.count("uci_cases_skipped_unfixed_ep_in_window", k0 - len(cases))
    jobs = [(c, rng.choice([1, 1, 2, 3])) for c in cases]
    nw = min(NCPU, 8)
    parts = [jobs[i::nw] for i in range(nw)]

    def work(part):
        if not part:
            return []
        e = Engine(eng_exe)
        out = []
        try:
            for (fen, moves, poss, u, aft), depth in part:
                sc, bm = e.score(fen, moves, u, depth)
                out.append((sc, bm, depth))
        finally:
            e.close()
        return out
    with ThreadPoolExecutor(max_workers=nw) as ex:
        res = list(ex.map(work, parts))
    dis, bad = [], []
    mlines, mexp = [], []
    for part, rs in zip(parts, res):
        for ((fen, moves, poss, u, aft), depth), (sc, bm, _) in zip(part, rs):
            ctx.evaluated()
            cmdline = "position fen %s moves %s ; go depth %d searchmoves %s" % (fen, " ".join(moves), depth, u)
            w = max(0, min(len(poss), aft["hmc"]))
            occ = sum(1 for p in poss[len(poss) - w:] if p["id"] == aft["id"])
            mated = aft["check"] and aft["nlegal"] == 0
            if mated:
                exp = ("mate", 1)
                ctx.count("uci_mate" + ("_at_hmc>=100" if aft["hmc"] >= 100 else ""))
                if aft["hmc"] >= 100:
                    ctx.nontrivial("U#:%s" % aft["id"])
            elif aft["hmc"] >= 100:
                exp = ("cp", 0)
                ctx.count("uci_fifty")
                ctx.nontrivial("U50:%s:%d" % (aft["id"], aft["hmc"]))
            elif occ >= 2:
                exp = ("cp", 0)
                ctx.count("uci_third_occurrence")
                ctx.nontrivial("U3:%s:%d" % (aft["id"], len(poss)))
            else:
                exp = None
                ctx.count("uci_no_draw" + ("_second_occurrence" if occ == 1 else ""))
            if sc is None:
                bad.append(dict(kind="uci", cmd=cmdline, what="no score reported (%s)" % bm))
                continue
            if exp is not None and tuple(sc[:2]) != exp:
                bad.append(dict(kind="uci", cmd=cmdline, what="engine reports score %s, Spec says %s (occurrences before=%d, clock after=%d, mated=%s)" % (sc, exp, occ, aft["hmc"], mated)))
            if exp is None and depth == 1 and tuple(sc[:2]) == ("cp", 0):
                ctx.count("uci_no_draw_but_cp0_depth1")
            # model: draw prefix at ply 1 with the list setupPosition built + the root hash
            steps = []
            for j in range(len(moves)):
                steps += [poss[j]["hash"], "1" if poss[j + 1]["hmc"] == 0 else "0"]
            mlines.append("S %d %d %s" % (poss[0]["hmc"], len(moves), " ".join(steps)))
            mexp.append((cmdline, sc, aft, poss[-1]))
    rc, mres, err = run_lines(ml_exe, mlines)
    if rc != 0 or len(mres) != len(mlines):
        raise RuntimeError("draw_driver failed on UCI S batch")
    plines = []
    for (cmdline, sc, aft, root), got in zip(mexp, mres):
        lst = got.split("|")[1].split() + [root["hash"]]
        size = len(lst)
        plines.append("P %d %d %d 1 %s %d %d %d %s" % (aft["hmc"], 1 if aft["check"] else 0, 1 if aft["nlegal"] > 0 else 0, aft["hash"], size, size - 1, size, " ".join(lst)))
    rc, pres, err = run_lines(ml_exe, plines)
    if rc != 0 or len(pres) != len(plines):
        raise RuntimeError("draw_driver failed on UCI P batch")
    for (cmdline, sc, aft, root), got in zip(mexp, pres):
        m = got.split("|")[0].split()
        if sc is None:
            continue
        if m[0] == "S":
            s = int(m[1])
            want = ("cp", 0) if s == 0 else ("mate", 1)
            if tuple(sc[:2]) != want:
                dis.append(dict(kind="uci", cmd=cmdline, what="model (setupPosition + draw prefix at ply 1) gives %s, engine reports %s" % (want, sc)))
    return dis, bad


# =====================================================================================
def load_corpus():
    p = os.path.join(VERIF, "corpus", "c11.txt")
    out = []
    if os.path.exists(p):
        for l in open(p):
            l = l.strip()
            if l.startswith("R "):
                t = l.split()
                n = int(t[5])
                out.append((int(t[1]), t[2], t[6:6 + n], int(t[3]), int(t[4])))
    return out


def run(ctx):
    ctx.rule = ("(a) tuples (clock, hash, list, size, firstNew): sizes 0..210 biased small, clocks at 0..5 / around the list size / "
                "98..101 / negative, firstNew at size-8..size+1, duplicates forced at every distance incl. the window edge; non-trivial = "
                "the current hash occurs among the candidates; (b) random legal games from 22 start positions (clocks 0..12, 60..110 by FEN) "
                "with reversible shuffles (1-3 cycles, optionally right after an irreversible move), claims with/without move, offers, "
                "resignation, undo, pokes at finished games; non-trivial = claim on a position with >=2 occurrences / clock 98..101, "
                "game end, computer claim, third occurrence in prefix/UCI; distinct by (kind, position identity, history length/clock)")
    ctx.trusted_base = ["Coq 8.16.1 kernel (coqc)", "extraction (ExtrOcamlBasic only) + OCaml + drivers/draw_driver.ml",
                        "harness/draw_harness.cpp (sets Position::hashKey / calls private members via #define private public)",
                        "hand-written model coq/Draw/Draw.v tied by correspondence",
                        "legal move generation, makeMove, FEN output and e.p. fix-up of /repo (used by the position-level oracle: C01/C02/C17)",
                        "python Spec oracle in props/c11.py (position identity = FEN placement+side+castling+ep)"]
    ctx.assumptions = ["model = code is established by differential testing, not by proof",
                       "C11_third_occurrence: Zobrist keys are collision-free on the history (hypothesis; every run checks that no two distinct positions of a game share a key)",
                       "C11_third_occurrence: positions an odd number of plies apart differ and no position recurs after exactly two plies (chess facts stated as hypotheses)",
                       "C11_window_complete: existence of a potential that captures/pawn moves strictly decrease (stated over an abstract potential)"]
    rng = ctx.rng
    ok, info = coqbuild.prove(ctx, PROP_FILE, timeout=ctx.scale(900, 1800))
    proof_broken = not ok
    if proof_broken:
        ctx.log("proof stage failed: %s" % json.dumps({k: info.get(k) for k in ("forbidden", "errors", "illegal_axioms")}, default=str)[:1500])
    net = cbuild.make_net("random", 1)
    cpp_exe = cbuild.build_harness("draw_harness", netfile=net,
                                   extra_srcs=["app/texel/enginecontrol.cpp", "app/texel/uciprotocol.cpp"])
    ml_exe = coqbuild.extract("ExtractDraw.v", "draw_driver.ml", "draw_driver")
    eng_exe = cbuild.build_engine("random", 1)
    # private copies: the shared build caches are purged by other checks during long runs
    rundir = tempfile.mkdtemp(prefix="c11-run-", dir=os.path.join(VERIF, ".cache"))
    try:
        exes = []
        for e in (cpp_exe, ml_exe, eng_exe):
            d = os.path.join(rundir, os.path.basename(e))
            shutil.copy2(e, d)
            exes.append(d)
        ctx.log("built harness, model and engine")
        run_stages(ctx, info, proof_broken, *exes)
    finally:
        shutil.rmtree(rundir, ignore_errors=True)


def run_stages(ctx, info, proof_broken, cpp_exe, ml_exe, eng_exe):
    rng = ctx.rng

    dis, bad = [], []
    # ---- (a) ----
    pool = SPECIAL_HASHES + ["%x" % rng.getrandbits(64) for _ in range(400)] + ["%x" % rng.getrandbits(8) for _ in range(20)]
    tuples = load_corpus()
    ctx.count("corpus_cases", len(tuples))
    tuples += [gen_rep_tuple(rng, pool) for _ in range(ctx.scale(200000, 1000000))]
    d, b = stage_rep(ctx, cpp_exe, ml_exe, tuples, "valid")
    dis += d
    bad += b
    mal = [gen_rep_malformed(rng, pool) for _ in range(ctx.scale(5000, 50000))]
    d, b = stage_rep(ctx, cpp_exe, ml_exe, mal, "malformed")
    dis += d
    bad += b
    flines = ["F %d" % x for x in list(range(-5, 260)) + [1000, 65535, 2147483647, -2147483648]]
    _, f1, _ = run_lines(cpp_exe, flines)
    _, f2, _ = run_lines(ml_exe, flines)
    for l, a, m in zip(flines, f1, f2):
        ctx.evaluated()
        x = int(l.split()[1])
        if a != m:
            dis.append(dict(kind="fifty", line=l, what="canClaimDraw50 model %s vs implementation %s" % (m, a)))
        if a != ("1" if x >= 100 else "0"):
            bad.append(dict(kind="fifty", line=l, what="canClaimDraw50(%d)=%s" % (x, a)))
    ctx.sample({"request": rep_line(tuples[-1])[:200], "note": "R hmc hash size firstNew n entries -> 0/1"})
    ctx.log("(a) %d tuples done, %d model disagreements, %d spec failures" % (len(tuples) + len(mal), len(dis), len(bad)))
    # ---- (b) ----
    seeds = [rng.getrandbits(48) for _ in range(ctx.scale(300, 4000))]
    games, d, b = stage_games(ctx, cpp_exe, ml_exe, seeds)
    dis += d
    bad += b
    if games:
        g = games[0]
        ctx.sample({"game_start": g["fen"], "first_steps": [list(c[:2]) for c, _ in g["log"][1:8]],
                    "last_state": g["log"][-1][1].get("state", {}).get("state")})
    ctx.log("(b) %d games done, %d model disagreements, %d spec failures" % (len(games), len(dis), len(bad)))
    d, b = stage_setup_prefix(ctx, cpp_exe, ml_exe, games, rng, ctx.scale(1500, 30000), ctx.scale(4000, 80000))
    dis += d
    bad += b
    d, b = stage_material(ctx, cpp_exe, ml_exe, rng, ctx.scale(3000, 50000))
    dis += d
    bad += b
    ctx.log("(b) setupPosition / prefix / material done, %d model disagreements, %d spec failures" % (len(dis), len(bad)))
    # ---- (c) ----
    d, b = stage_uci(ctx, eng_exe, ml_exe, games, rng, ctx.scale(500, 10000))
    dis += d
    bad += b
    ctx.log("(c) UCI done, %d model disagreements, %d spec failures" % (len(dis), len(bad)))
    ctx.traces_validated = ctx.evaluations
    ctx.notes["distribution"] = {"rep_tuples": len(tuples), "rep_malformed": len(mal), "games": len(seeds)}

    if not proof_broken and not dis and not bad:
        return
    # ---- (5) finder: implementation vs Spec (never vs model) ----
    replay = {"broken_proof": info if proof_broken else None, "model_disagreements": dis[:20], "spec_failures": bad[:20]}
    if not bad:
        # nothing failed against the Spec yet: more volume on the same generators, Spec only
        extra = [gen_rep_tuple(rng, pool) for _ in range(ctx.scale(300000, 3000000))]
        for x in dis:
            if x.get("kind") == "rep":
                t = x["line"].split()
                n = int(t[5])
                extra.insert(0, (int(t[1]), t[2], t[6:6 + n], int(t[3]), int(t[4])))
        _, b = stage_rep(ctx, cpp_exe, ml_exe, extra, "finder")
        bad += b
        if not bad:
            seeds = [rng.getrandbits(48) for _ in range(ctx.scale(300, 3000))]
            games2, _, b = stage_games(ctx, cpp_exe, ml_exe, seeds)
            bad += b
            games += games2
        ctx.count("finder_runs")
    if bad:
        # prefer a failing game history / position (position-level Spec) over a bare hash tuple
        pref = ["game", "uci", "prefix", "setup", "material", "fifty", "rep"]
        first = sorted(bad, key=lambda x: pref.index(x["kind"]))[0]
        if first["kind"] == "rep":
            first = dict(first)
            first["original_line"] = first["line"]
            first["line"] = shrink_rep(cpp_exe, ml_exe, first["line"], True)
            t = first["line"].split()
            _, a, _ = run_lines(cpp_exe, [first["line"]])
            first["what"] = ("canClaimDrawRep(hmc=%s,size=%s,firstNew=%s,list=%s,hash=%s) returns %s, the condition of C11_rep_iff says %s "
                             "(hash-tuple level; no game history found on which the position-level rule fails)"
                             % (t[1], t[3], t[4], ",".join(t[6:]), t[2], (a or ["CRASH"])[0],
                                1 if rep_spec_py(int(t[1]), t[2], t[6:6 + int(t[5])], int(t[3]), int(t[4])) else 0))
            key = "rep:" + first["line"]
        elif first["kind"] == "game":
            g = [x for x in games if x["seed"] == first["seed"]][0]
            first = dict(first)
            if first["step"] >= 0:
                sm = shrink_game(cpp_exe, ml_exe, g, first["step"])
                if sm:
                    g, f2 = sm
                    first.update(what=f2["what"], step=f2["step"], fen=g["fen"])
            first["script"] = game_replay_script(g, first["step"]) if first["step"] >= 0 else []
            key = "game:%s:%s" % (first["fen"], ";".join(first["script"][2:]))
        else:
            key = "%s:%s" % (first["kind"], first.get("line") or first.get("cmd"))
        replay["failing_input"] = first
        replay["spec_failures_total"] = len(bad)
        ctx.violation(first["what"], replay, key=key.replace(" ", "_"))
    else:
        if dis and dis[0].get("kind") == "rep":
            dis[0]["line"] = shrink_rep(cpp_exe, ml_exe, dis[0]["line"], False)
            replay["model_disagreements"] = dis[:20]
        what = ("theorem(s) in %s no longer check" % PROP_FILE) if proof_broken else "correspondence model/implementation broken: %s" % dis[0]["what"]
        replay["broken"] = what
        ctx.violation(what, replay, no_failing_input=True)


def replay(ctx, body):
    r = body.get("replay", {})
    f = r.get("failing_input") or (r.get("model_disagreements") or [None])[0]
    if not f:
        print("nothing to replay:", body.get("what"))
        return
    net = cbuild.make_net("random", 1)
    cpp_exe = cbuild.build_harness("draw_harness", netfile=net,
                                   extra_srcs=["app/texel/enginecontrol.cpp", "app/texel/uciprotocol.cpp"])
    print("what:", f.get("what"))
    if f.get("kind") == "game":
        _, out, _ = run_lines(cpp_exe, f["script"])
        for c, o in zip(f["script"], out):
            print("  %-40s -> %s" % (c, o))
    elif f.get("kind") == "uci":
        eng = cbuild.build_engine("random", 1)
        pos, go = f["cmd"].split(" ; ")
        rc, out, err = sh("(echo uci; echo '%s'; echo '%s'; sleep 2; echo quit) | %s" % (pos.replace(" moves  ", " "), go, eng), timeout=60)
        print("\n".join(l for l in out.split("\n") if "score" in l or "bestmove" in l))
    else:
        _, out, _ = run_lines(cpp_exe, [f["line"]])
        print("request:", f["line"])
        print("implementation:", out[0] if out else "?")
        if f.get("kind") == "rep":
            t = f["line"].split()
            n = int(t[5])
            print("spec:", 1 if rep_spec_py(int(t[1]), t[2], t[6:6 + n], int(t[3]), int(t[4])) else 0)
