"""C04 — announced mates are real (DESIGN.md section 6, C04).

Stages
  (1) translate   tx/c04_consts.py: SearchConst/TType constants + isWinScore/isLoseScore -> coq/gen/SearchConsts.v
  (2) prove       coq/Properties_C04.v (ply algebra, rule-system soundness, root corollaries,
                  certificate-checker soundness)
  (3) correspond  (a) leaf functions: extracted Score.v vs the real TTEntry::setScore/getScore/
                      isCutOff, isWinScore/isLoseScore, Search::notifyPV's "mate N" conversion;
                  (b) trace certificates (needs hook H3, hooks/h3-search-trace.patch): every
                      logged node whose returned score is a mate score must be justified by a
                      rule instance (extracted checker `step`), every mate score reported at the
                      root must satisfy the root theorems' premises.  Without the hook in the
                      tree under test this part is skipped (noted in the evidence).
  (5) find        engine UCI output vs an exhaustive mate solver (harness request Q/L, built on
                  MoveGen + make/unmake only): every `score mate N` (exact / lowerbound), the
                  move it is announced for, final `mate -N`; mate-in-one positions of all kinds
                  at every completed depth.  Runs on every check (cheap), and decides whether a
                  broken proof / correspondence has a concrete failing input.
"""
import json
import os
import re
import select
import shutil
import subprocess
import time
from concurrent.futures import ThreadPoolExecutor

from tx import c04_consts
from vlib import cbuild, coqbuild
from vlib.common import CACHE, NCPU, REPO, VERIF, sh

PROP_FILE = "Properties_C04.v"
MATE0 = 32000          # only used to *generate* inputs / decode trace records; the checks themselves
HALF = MATE0 // 2      # use the regenerated constants through the extracted model

START_FEN = "rnbqkbnr/pppppppp/8/8/8/8/PPPPPPPP/RNBQKBNR w KQkq - 0 1"


# =====================================================================================
# small helpers
# =====================================================================================
def fen4(fen):
    return " ".join(fen.split()[:4])


def is_mate_score(s):
    return s > HALF or s < -HALF


def model_mate_of_score(s):
    """python copy of Score.mate_of_score, used only to fill in the N handed to the extracted
    root checks (which re-compute it) and to decode engine claims for the solver."""
    if s > HALF:
        return (MATE0 - s) // 2
    if s < -HALF:
        return -((MATE0 + s - 1) // 2)
    return None


def hooked_tree():
    """Is hook H3 present in the tree under test?"""
    p = os.path.join(REPO, "lib", "texellib", "debug", "verifTrace.hpp")
    if not os.path.exists(p):
        return False
    try:
        return "TEXEL_VERIF_TRACE" in open(p).read() and "verifTrace" in open(os.path.join(REPO, "lib", "texellib", "search.cpp")).read()
    except OSError:
        return False


class _Lines:
    """line reader on a raw pipe fd with deadline (select + os.read; no hidden buffering)"""

    def __init__(self, fd):
        self.fd = fd
        self.buf = b""

    def readline(self, timeout):
        end = time.time() + timeout
        while b"\n" not in self.buf:
            left = end - time.time()
            if left <= 0:
                return None
            r, _, _ = select.select([self.fd], [], [], left)
            if not r:
                return None
            chunk = os.read(self.fd, 1 << 16)
            if not chunk:
                if self.buf:
                    line, self.buf = self.buf, b""
                    return line.decode(errors="replace")
                return ""
            self.buf += chunk
        line, self.buf = self.buf.split(b"\n", 1)
        return line.decode(errors="replace")


class LineProc:
    """A child process speaking a one-request-line / one-answer-line protocol."""

    def __init__(self, argv, env=None):
        e = dict(os.environ)
        if env:
            e.update(env)
        self.p = subprocess.Popen(argv, stdin=subprocess.PIPE, stdout=subprocess.PIPE, stderr=subprocess.DEVNULL, env=e)
        self.rd = _Lines(self.p.stdout.fileno())

    def ask(self, line, timeout=120):
        self.p.stdin.write((line + "\n").encode())
        self.p.stdin.flush()
        out = self.rd.readline(timeout)
        if out is None:
            raise RuntimeError("no answer within %ds to %r" % (timeout, line[:100]))
        if out == "":
            raise RuntimeError("process died on %r" % line[:100])
        return out

    def close(self):
        try:
            self.p.stdin.close()
            self.p.wait(timeout=10)
        except Exception:
            self.p.kill()


def batch(exe, lines, timeout=1800, env=None):
    """Run a line-protocol program on many requests at once."""
    if not lines:
        return []
    rc, out, err = sh([exe], input="\n".join(lines) + "\n", timeout=timeout, env=env)
    res = out.split("\n")
    if res and res[-1] == "":
        res.pop()
    if rc != 0 or len(res) != len(lines):
        raise RuntimeError("%s: rc=%d, %d answers for %d requests\n%s" % (exe, rc, len(res), len(lines), err[-2000:]))
    return res


# =====================================================================================
# C13 leaf: source text of rule50Margin / updateEvScore copied from the current tree
# =====================================================================================
def _function_text(txt, header_re):
    m = re.search(header_re, txt)
    if not m:
        return None
    i = txt.index("{", m.end() - 1)
    depth = 0
    j = i
    while j < len(txt):
        if txt[j] == "{":
            depth += 1
        elif txt[j] == "}":
            depth -= 1
            if depth == 0:
                break
        j += 1
    return txt[m.start():j + 1]


def c13_rule50_source():
    """Generated translation unit wrapping the static inline rule50Margin of tbprobe.cpp."""
    src = open(os.path.join(REPO, "lib", "texellib", "tb", "tbprobe.cpp")).read()
    f1 = _function_text(src, r"static\s+inline\s+void\s+updateEvScore\s*\([^)]*\)\s*\{")
    f2 = _function_text(src, r"static\s+inline\s+int\s+rule50Margin\s*\([^)]*\)\s*\{")
    body = ["// GENERATED by props/c04.py from lib/texellib/tb/tbprobe.cpp -- do not edit",
            '#include "transpositionTable.hpp"', '#include "constants.hpp"', "#include <cstdlib>", "#include <cmath>",
            "namespace c13gen {", "using std::abs;"]
    if f1 and f2:
        body += [f1, f2,
                 "int callRule50Margin(int dtm, int ply, int hmc, int& ev) {",
                 "    TranspositionTable::TTEntry e; e.setEvalScore(ev); int m = rule50Margin(dtm, ply, hmc, e); ev = e.getEvalScore(); return m; }"]
    else:   # the functions are gone / renamed: the C13 check reports the broken tie
        body += ["int callRule50Margin(int, int, int, int& ev) { ev = -99999; return -99999; }"]
    body.append("}")
    txt = "\n".join(body) + "\n"
    d = os.path.join(CACHE, "gen")
    os.makedirs(d, exist_ok=True)
    import hashlib
    path = os.path.join(d, "c13_rule50_%s.cpp" % hashlib.sha256(txt.encode()).hexdigest()[:16])
    if not os.path.exists(path):
        tmp = path + ".tmp%d" % os.getpid()
        open(tmp, "w").write(txt)
        os.replace(tmp, path)
    return path, bool(f1 and f2)


def build_harness():
    gen, _ = c13_rule50_source()
    return cbuild.build_harness("c04_harness", netfile=cbuild.make_net("material", 1), extra_srcs=[gen], with_util=False)


# =====================================================================================
# oracle (harness): positions, legal moves, mate solver
# =====================================================================================
class Oracle:
    def __init__(self, exe):
        self.exe = exe
        self.proc = LineProc([exe])
        self.cache = {}

    def annotate(self, fen):
        """-> (in_check, [(code, fen_after)]) or None if the FEN is rejected."""
        if fen in self.cache:
            return self.cache[fen]
        r = parse_annot(self.proc.ask("A " + fen))
        self.cache[fen] = r
        return r

    def mate_in(self, fen, n):
        t = self.proc.ask("Q %s | %d" % (fen, n), timeout=600).split()
        if t[0] == "ERR":
            return None, []
        return int(t[0]), t[1:]

    def mated_in(self, fen, n):
        t = self.proc.ask("L %s | %d" % (fen, n), timeout=600).split()
        if t[0] == "ERR":
            return None
        return int(t[0])

    def dtm(self, fen):
        """exact distance to mate (moves) of a pawnless <= 4-man position from the engine's own
        retrograde generator (certified exact by C12): ('mate', n) | ('mated', n) | ('draw', 0) | None"""
        t = self.proc.ask("M " + fen, timeout=900).split()
        if t[0] in ("mate", "mated"):
            return t[0], int(t[1])
        if t[0] == "draw":
            return "draw", 0
        return None

    def close(self):
        self.proc.close()


def batch_retry(exe, lines, retry, timeout=3600):
    """certificate checker run: all requests, then (multi-threaded traces) RETRY, which appends one
    final verdict per request answered BAD"""
    if not lines:
        return []
    rc, out, err = sh([exe], input="\n".join(lines + (["RETRY"] if retry else [])) + "\n", timeout=timeout)
    res = out.split("\n")
    if res and res[-1] == "":
        res.pop()
    nbad = sum(1 for x in res[:len(lines)] if x != "OK")
    if rc != 0 or len(res) != len(lines) + (nbad if retry else 0):
        raise RuntimeError("%s: rc=%d, %d answers for %d requests\n%s" % (exe, rc, len(res), len(lines), err[-2000:]))
    return res


def parse_annot(line):
    if line.startswith("ERR"):
        return None
    parts = line.split(" ; ")
    h = parts[0].split()
    ic = h[0] == "1"
    moves = []
    for p in parts[1:]:
        code, fen = p.split(" ", 1)
        moves.append((int(code), fen))
    assert len(moves) == int(h[1])
    return ic, moves


def code_to_uci(code):
    f, t, pr = code & 63, (code >> 6) & 63, (code >> 12) & 15
    s = "abcdefgh"[f & 7] + str((f >> 3) + 1) + "abcdefgh"[t & 7] + str((t >> 3) + 1)
    if pr:
        s += {2: "q", 3: "r", 4: "b", 5: "n", 8: "q", 9: "r", 10: "b", 11: "n"}.get(pr, "?")
    return s


def uci_to_code_map(moves):
    return {code_to_uci(c): (c, f) for c, f in moves}


# =====================================================================================
# python board helpers (classification of mate-in-one kinds; position synthesis)
# =====================================================================================
def board_of(fen):
    b = {}
    rows = fen.split()[0].split("/")
    for r, row in enumerate(rows):
        y = 7 - r
        x = 0
        for ch in row:
            if ch.isdigit():
                x += int(ch)
            else:
                b[y * 8 + x] = ch
                x += 1
    return b


def fen_of(board, stm, castle="-", ep="-", hmc=0, full=1):
    rows = []
    for y in range(7, -1, -1):
        row = ""
        e = 0
        for x in range(8):
            p = board.get(y * 8 + x)
            if p is None:
                e += 1
            else:
                if e:
                    row += str(e)
                    e = 0
                row += p
        if e:
            row += str(e)
        rows.append(row)
    return "%s %s %s %s %d %d" % ("/".join(rows), stm, castle, ep, hmc, full)


def attackers(board, sq, by_white):
    """squares of the pieces of one colour attacking sq (independent of the engine)."""
    res = []
    x0, y0 = sq & 7, sq >> 3

    def at(x, y):
        return board.get(y * 8 + x) if 0 <= x < 8 and 0 <= y < 8 else None
    mine = (lambda p: p.isupper()) if by_white else (lambda p: p.islower())
    for dx, dy in ((1, 2), (2, 1), (-1, 2), (-2, 1), (1, -2), (2, -1), (-1, -2), (-2, -1)):
        p = at(x0 + dx, y0 + dy)
        if p and mine(p) and p.lower() == "n":
            res.append((y0 + dy) * 8 + x0 + dx)
    for dx in (-1, 0, 1):
        for dy in (-1, 0, 1):
            if dx or dy:
                p = at(x0 + dx, y0 + dy)
                if p and mine(p) and p.lower() == "k":
                    res.append((y0 + dy) * 8 + x0 + dx)
    pdy = -1 if by_white else 1      # a white pawn on (x0±1, y0-1) attacks (x0,y0)
    for dx in (-1, 1):
        p = at(x0 + dx, y0 + pdy)
        if p and mine(p) and p.lower() == "p":
            res.append((y0 + pdy) * 8 + x0 + dx)
    for dirs, kinds in ((((1, 0), (-1, 0), (0, 1), (0, -1)), "rq"), (((1, 1), (1, -1), (-1, 1), (-1, -1)), "bq")):
        for dx, dy in dirs:
            x, y = x0 + dx, y0 + dy
            while 0 <= x < 8 and 0 <= y < 8:
                p = at(x, y)
                if p:
                    if mine(p) and p.lower() in kinds:
                        res.append(y * 8 + x)
                    break
                x += dx
                y += dy
    return res


def classify_mating_move(fen, code, fen_after):
    """kinds of a mating move: promotion, ep, castling, double (check), discovered."""
    b0 = board_of(fen)
    b1 = board_of(fen_after)
    white = fen.split()[1] == "w"
    f, t, pr = code & 63, (code >> 6) & 63, (code >> 12) & 15
    kinds = set()
    mover = b0.get(f, "?")
    if pr:
        kinds.add("promotion")
    if mover.lower() == "p" and (f & 7) != (t & 7) and t not in b0:
        kinds.add("ep")
    if mover.lower() == "k" and abs((f & 7) - (t & 7)) == 2:
        kinds.add("castling")
    ksq = [s for s, p in b1.items() if p == ("k" if white else "K")]
    if ksq:
        att = attackers(b1, ksq[0], white)
        if len(att) >= 2:
            kinds.add("double")
        moved_to = [t]
        if "castling" in kinds:
            moved_to.append((t + f) // 2)      # the rook lands between
        if any(a not in moved_to for a in att):
            kinds.add("discovered")
    if mover.lower() == "p" and not pr and "ep" not in kinds:
        kinds.add("pawn")
    if not kinds:
        kinds.add("plain")
    return kinds


# =====================================================================================
# position generators (all randomness from ctx.rng)
# =====================================================================================
def random_endgame(rng, oracle, kinds=("KQK", "KRK", "KQKR", "KRRK", "KQKB", "KBBK", "KQQK", "KRKN", "KQKN", "KRBK")):
    for _ in range(200):
        k = rng.choice(kinds)
        pieces = ["K"] + list(k[1:k.index("K", 1)]) + ["k"] + [c.lower() for c in k[k.index("K", 1) + 1:]]
        sqs = rng.sample(range(64), len(pieces))
        # bias: weak king near the edge makes short mates
        if rng.random() < 0.6:
            edge = [s for s in range(64) if (s & 7) in (0, 7) or (s >> 3) in (0, 7)]
            ki = pieces.index("k")
            sqs[ki] = rng.choice(edge)
            if len(set(sqs)) != len(sqs):
                continue
        b = dict(zip(sqs, pieces))
        fen = fen_of(b, rng.choice("wb"))
        a = oracle.annotate(fen)
        if a is None or not a[1]:
            continue
        return fen
    raise RuntimeError("could not generate an endgame position")


def dtm_endgames(rng, oracle, want, lo, hi, kinds=("KQK", "KRK", "KQK", "KRK", "KRRK", "KQKN", "KQKB", "KQKR", "KQQK")):
    """won/lost pawnless <= 4-man positions whose exact distance to mate (moves) is in [lo, hi]"""
    out = []
    for _ in range(want * 60):
        if len(out) >= want:
            break
        fen = random_endgame(rng, oracle, kinds=(rng.choice(kinds),))
        e = oracle.dtm(fen)
        if e is not None and e[0] in ("mate", "mated") and lo <= e[1] <= hi:
            out.append((fen, e))
    return out


def null_clamp_scenarios(oracle):
    """request sequences (each to be run in order in ONE harness process) that take the
    isWinScore clamp of the null-move return (search.cpp:740-743).  The path is practically
    unreachable in ordinary searches: the null move is only tried when evalScore >= beta, and in
    its subtree the same side's nodes then cut off at beta with stand-pat / fail-soft evaluation
    values, so the null-move child never sees a mate score for EVERY reply.  Here the replies'
    positions are first searched with a full window (exact mate scores go into the shared table),
    then the node is searched at depth 9 with a normal null window: razoring/futility do not
    apply to the null child (depth 5), every grandchild is cut by its table entry, the null
    search fails high with a win score and the clamp returns beta."""
    seqs = []
    for seed in NULL_THREAT_SEEDS:
        for fen in (seed, mirror_fen(seed)):
            a = oracle.annotate(fen)
            if a is None:
                continue
            p = fen.split()
            p[1] = "b" if p[1] == "w" else "w"
            p[3] = "-"
            an = oracle.annotate(" ".join(p))
            if an is None or not an[1] or an[0]:
                continue
            seq = ["T"] + ["D %s | %d %d 4 3" % (f, -MATE0, MATE0) for _, f in an[1]]
            for w in ((100, 101), (400, 401)):
                seq.append("D %s | %d %d 2 9" % (fen, w[0], w[1]))
            seqs.append(seq)
    return seqs


def random_game_positions(rng, oracle, nplies, start=START_FEN):
    """random legal play; yields the FENs passed through"""
    fen = start
    out = []
    for _ in range(nplies):
        a = oracle.annotate(fen)
        if a is None or not a[1]:
            break
        out.append(fen)
        # mild bias towards captures so that material thins out and kings get exposed
        b = board_of(fen)
        caps = [m for m in a[1] if ((m[0] >> 6) & 63) in b]
        pool = caps if caps and rng.random() < 0.35 else a[1]
        fen = rng.choice(pool)[1]
    return out


def find_mate_positions(ctx, oracle, want, max_n, budget_games):
    """positions from random play in which the side to move has a forced mate in <= max_n
    (exhaustive solver).  Returns list of (fen, D, mating first moves)."""
    rng = ctx.rng
    res = []
    seen = set()
    for _ in range(budget_games):
        if len(res) >= want:
            break
        for fen in random_game_positions(rng, oracle, rng.randint(30, 110))[12:]:
            if fen4(fen) in seen:
                continue
            seen.add(fen4(fen))
            ctx.count("finder_random_positions_solved")
            d, ms = oracle.mate_in(fen, min(max_n, 2))
            if not d and max_n > 2 and rng.random() < 0.04:
                d, ms = oracle.mate_in(fen, max_n)         # mate in 3: exhaustive search is slow, sample
            if d:
                res.append((fen, d, ms))
                if len(res) >= want:
                    break
    return res


# hand-made seeds for the kinds of mate in one that random play rarely produces; each is
# validated by the exhaustive solver before use and also used colour-mirrored
MATE1_SEEDS = [
    "6k1/5ppp/8/8/8/8/8/4R1K1 w - - 0 1",                      # back rank
    "6k1/5ppp/8/8/8/8/8/4R1K1 w - - 99 80",                    # ... delivered on the 100th half move
    "7k/P5pp/8/8/8/8/8/K7 w - - 0 1",                          # promotion
    "5rk1/4Pppp/8/8/8/8/8/K7 w - - 0 1",                       # capture-promotion
    "k7/2P5/1K6/8/8/8/8/8 w - - 0 1",                          # promotion (queen or rook)
    "7k/5Pp1/6Kp/8/8/8/8/8 w - - 0 1",                         # promotion
    "6nb/5Ppk/8/6K1/8/8/8/8 w - - 0 1",                        # under-promotion to a knight is the only mate
    "4rkr1/4p1p1/8/8/8/8/8/4K2R w K - 0 1",                    # O-O mate (also Rf1)
    "2rkr3/2p1p3/8/8/8/8/8/R3K3 w Q - 0 1",                    # O-O-O mate (also Rd1)
    "3nrb2/4kp2/8/2PpPPP1/B7/8/8/6K1 w - d6 0 1",              # en passant capture mates
    "3qkb2/5p2/8/8/4B3/8/8/4R1K1 w - - 0 1",                   # double check Bc6
    "k7/pp6/8/8/8/8/6B1/K2R4 w - - 0 1",
    "6rk/6pp/8/8/8/8/1B6/K5R1 w - - 0 1",
    "4k3/8/4K3/8/8/8/8/7R w - - 0 1",
    "r1bqkb1r/pppp1ppp/2n2n2/4p2Q/2B1P3/8/PPPP1PPP/RNB1K1NR w KQkq - 4 4",   # scholar's mate
    "rnbqkbnr/pppp1ppp/8/4p3/6P1/5P2/PPPPP2P/RNBQKBNR b KQkq - 0 2",       # fool's mate
    "6k1/5p1p/5BpQ/8/8/8/8/6K1 w - - 0 1",
    "5k2/R7/5K2/8/8/8/8/8 w - - 0 1",
    "1k6/1P6/1K6/8/8/8/8/7R w - - 0 1",
    "kr6/pp6/8/1N6/8/8/8/K7 w - - 0 1",                        # smothered
    "6k1/3R4/6K1/8/8/8/8/8 w - - 0 1",
    "3k4/3P4/3K4/8/8/8/8/6R1 w - - 0 1",
    "k7/8/1K6/8/8/8/8/4Q3 w - - 0 1",
    "7k/8/5N1K/8/8/8/8/6R1 w - - 0 1",
    "4R3/5ppk/7p/8/8/8/8/B6K w - - 0 1",
    "r4rk1/ppp2p1p/6p1/8/8/1B5Q/PPP5/1K5R w - - 0 1",
    "2kr4/ppp5/8/8/8/8/5PPP/4R1K1 b - - 0 1",
    "8/8/8/8/8/6k1/4q3/7K b - - 0 1",
    "6k1/8/6K1/8/8/8/8/R7 w - - 0 1",
    "4k3/8/8/8/8/8/8/R3K2R w KQ - 0 1",
]


def mirror_fen(fen):
    """swap colours and flip the board top to bottom"""
    p = fen.split()
    rows = p[0].split("/")[::-1]
    rows = ["".join(c.lower() if c.isupper() else c.upper() for c in r) for r in rows]
    stm = "b" if p[1] == "w" else "w"
    cas = "".join(sorted((c.lower() if c.isupper() else c.upper() for c in p[2]), key="KQkq".index)) if p[2] != "-" else "-"
    ep = p[3] if p[3] == "-" else p[3][0] + str(9 - int(p[3][1]))
    return " ".join(["/".join(rows), stm, cas, ep] + p[4:])


def decorate(rng, oracle, fen, tries=6):
    """add a few random pieces to a seed position, keeping it a legal mate-in-one position"""
    b = board_of(fen)
    parts = fen.split()
    for _ in range(tries):
        b2 = dict(b)
        for _ in range(rng.randint(1, 4)):
            sq = rng.randrange(64)
            if sq in b2:
                continue
            pc = rng.choice("PPNBRQppnbrq")
            if pc.lower() == "p" and (sq >> 3) in (0, 7):
                continue
            b2[sq] = pc
        f2 = fen_of(b2, parts[1], parts[2], parts[3])
        a = oracle.annotate(f2)
        if a is None or not a[1]:
            continue
        d, ms = oracle.mate_in(f2, 1)
        if d == 1:
            return f2
    return fen


def mate_in_one_set(ctx, oracle, n_target):
    """mate-in-one positions of all kinds: seeds + decorated seeds + harvested from random
    play; classified by the kinds of their mating moves (python, independent of the engine)."""
    rng = ctx.rng
    out = []
    for seed in MATE1_SEEDS:
        for fen in (seed, mirror_fen(seed)):
            a = oracle.annotate(fen)
            if a is None:
                continue
            d, ms = oracle.mate_in(fen, 1)
            if d == 1:
                out.append(fen)
                if len(out) < n_target:
                    f2 = decorate(rng, oracle, fen)
                    if f2 != fen:
                        out.append(f2)
    return out


def mating_kinds(oracle, fen):
    a = oracle.annotate(fen)
    d, ms = oracle.mate_in(fen, 1)
    kinds = set()
    if d != 1:
        return kinds, []
    mp = uci_to_code_map(a[1])
    for m in ms:
        code, fa = mp[m]
        kinds |= classify_mating_move(fen, code, fa)
    return kinds, ms


# =====================================================================================
# UCI engine sessions
# =====================================================================================
INFO_RE = re.compile(r"^info depth (\d+) score (cp|mate) (-?\d+)( lowerbound| upperbound)?.* pv (.*)$")


class Engine:
    def __init__(self, exe, options, trace=None):
        env = dict(os.environ)
        env.pop("TEXEL_VERIF_TRACE", None)
        env.pop("TEXEL_VERIF_TRACE_ALL", None)
        if trace:
            env["TEXEL_VERIF_TRACE"] = trace
        self.p = subprocess.Popen([exe], stdin=subprocess.PIPE, stdout=subprocess.PIPE, stderr=subprocess.DEVNULL, env=env)
        self.rd = _Lines(self.p.stdout.fileno())
        self.send("uci")
        self.wait_for("uciok", 60)
        for k, v in options.items():
            self.send("setoption name %s value %s" % (k, v))
        self.send("isready")
        self.wait_for("readyok", 120)

    def send(self, s):
        self.p.stdin.write((s + "\n").encode())
        self.p.stdin.flush()

    def wait_for(self, token, timeout):
        lines = []
        end = time.time() + timeout
        while True:
            left = end - time.time()
            line = self.rd.readline(left) if left > 0 else None
            if line is None:
                raise RuntimeError("engine: no %r within %ds" % (token, timeout))
            if line == "" and self.p.poll() is not None:
                raise RuntimeError("engine died waiting for %r" % token)
            lines.append(line)
            if line.startswith(token):
                return lines

    def go(self, fen, depth, newgame=False, timeout=180):
        """-> dict(infos=[(depth, kind, value, bound, pv)], bestmove=str)"""
        if newgame:
            self.send("ucinewgame")
        self.send("position fen " + fen)
        self.send("go depth %d" % depth)
        lines = self.wait_for("bestmove", timeout)
        infos = []
        for l in lines:
            m = INFO_RE.match(l)
            if m:
                infos.append((int(m.group(1)), m.group(2), int(m.group(3)), (m.group(4) or "").strip(), m.group(5).split()))
        bm = lines[-1].split()[1] if len(lines[-1].split()) > 1 else "0000"
        return dict(infos=infos, bestmove=bm)

    def quit(self):
        try:
            self.send("quit")
            self.p.wait(timeout=10)
        except Exception:
            self.p.kill()


# =====================================================================================
# finder: engine announcements vs the exhaustive solver
# =====================================================================================
def check_announcements(oracle, fen, res, max_n, stats, want_mate1=False):
    """Returns a list of failure dicts (empty = all claims verified or beyond the solver)."""
    fails = []
    a = oracle.annotate(fen)
    mp = uci_to_code_map(a[1])
    last_exact_by_depth = {}
    exact = oracle.dtm(fen) if sum(1 for c in fen.split()[0] if c.isalpha()) <= 4 else None
    for (d, kind, val, bound, pv) in res["infos"]:
        if not bound:
            last_exact_by_depth[d] = (kind, val, pv)
        if kind != "mate":
            continue
        if val > 0 and bound != "upperbound":
            stats["win_claims"] = stats.get("win_claims", 0) + 1
            if exact is not None:
                # exact distance-to-mate oracle: no limit on N
                stats["win_claims_vs_exact_dtm"] = stats.get("win_claims_vs_exact_dtm", 0) + 1
                if not (exact[0] == "mate" and exact[1] <= val):
                    fails.append(dict(kind="false mate announcement", fen=fen, claim="mate %d %s" % (val, bound), depth=d,
                                      expected="exact distance to mate: %s %d" % exact))
                    continue
                if pv and pv[0] in mp:
                    ea = oracle.dtm(mp[pv[0]][1])
                    if not (ea is not None and ea[0] == "mated" and ea[1] <= val - 1):
                        fails.append(dict(kind="announced move does not keep the mate", fen=fen, move=pv[0],
                                          claim="mate %d %s" % (val, bound), depth=d,
                                          expected="after %s the exact result is %s, not mated within %d" % (pv[0], ea, val - 1)))
                continue
            if val <= max_n:
                dd, ms = oracle.mate_in(fen, val)
                stats["win_claims_solved"] = stats.get("win_claims_solved", 0) + 1
                if not dd:
                    fails.append(dict(kind="false mate announcement", fen=fen, claim="mate %d %s" % (val, bound), depth=d,
                                      expected="no forced mate within %d moves (exhaustive solver)" % val))
                    continue
                if pv and pv[0] in mp:
                    # the move the score is announced for keeps a forced mate within N-1 more moves
                    after = mp[pv[0]][1]
                    k = oracle.mated_in(after, val - 1)
                    if k is None or k < 0:
                        fails.append(dict(kind="announced move does not keep the mate", fen=fen, move=pv[0],
                                          claim="mate %d %s" % (val, bound), depth=d,
                                          expected="after %s the opponent is not mated within %d moves" % (pv[0], val - 1)))
    # final result
    if res["infos"]:
        fd = max(last_exact_by_depth) if last_exact_by_depth else None
        if fd is not None:
            kind, val, pv = last_exact_by_depth[fd]
            if kind == "mate" and val < 0:
                stats["loss_claims"] = stats.get("loss_claims", 0) + 1
                if exact is not None:
                    stats["loss_claims_vs_exact_dtm"] = stats.get("loss_claims_vs_exact_dtm", 0) + 1
                    if not (exact[0] == "mated" and exact[1] <= -val):
                        fails.append(dict(kind="false final mate -N", fen=fen, claim="mate %d" % val, depth=fd,
                                          expected="exact distance to mate: %s %d" % exact))
                elif -val <= max_n:
                    k = oracle.mated_in(fen, -val)
                    stats["loss_claims_solved"] = stats.get("loss_claims_solved", 0) + 1
                    if k is None or k < 0:
                        fails.append(dict(kind="false final mate -N", fen=fen, claim="mate %d" % val, depth=fd,
                                          expected="side to move is not mated within %d moves against every defence" % -val))
    if res["bestmove"] not in mp and a[1]:
        fails.append(dict(kind="bestmove not legal", fen=fen, move=res["bestmove"], expected="a legal move"))
    if want_mate1:
        d1, ms = oracle.mate_in(fen, 1)
        assert d1 == 1
        for d, (kind, val, pv) in sorted(last_exact_by_depth.items()):
            if not (kind == "mate" and val == 1):
                fails.append(dict(kind="mate in one not reported", fen=fen, depth=d, claim="%s %d" % (kind, val),
                                  expected="score mate 1 at every completed depth; mating moves %s" % ms))
                break
        if res["bestmove"] not in ms:
            fails.append(dict(kind="mate in one not played", fen=fen, move=res["bestmove"], expected="one of %s" % ms))
        if not last_exact_by_depth:
            fails.append(dict(kind="mate in one: no completed depth reported", fen=fen, expected="score mate 1"))
    return fails


# =====================================================================================
# trace certificates
# =====================================================================================
class TraceRec:
    __slots__ = ("id", "parent", "kind", "move", "fn", "ply", "depth", "alpha", "beta", "score", "site", "ty", "ic", "key",
                 "ttty", "ttraw", "ttd", "eval", "mg", "qid", "ngen", "nsearched", "nfut", "finals", "fen", "ok")


def parse_trace(path, first_id=0):
    """-> (searches, evals, maxid); searches = list of dict(root_fen, nroot, events=[('N', rec) | ('R', tuple) | ('D', ...)]).
    Node ids restart at 1 for every Search object (record O); they are rebased here (starting
    above first_id) so that an id denotes one node of all files of one engine process."""
    searches = []
    cur = None
    evals = []
    base = first_id
    maxid = first_id
    if not os.path.exists(path):
        return searches, evals, maxid

    def gid(x):
        return x + base if x else 0
    for line in open(path):
        line = line.rstrip("\n")
        if not line:
            continue
        tag = line[0]
        if tag == "O":
            base = maxid
            cur = dict(root_fen=None, thread=0, nroot=0, maxdepth=0, events=[])
            searches.append(cur)
        elif tag == "P":
            head, fen = line.split(" | ", 1)
            t = head.split()
            if cur is None or cur["root_fen"] is not None or cur["events"]:
                cur = dict(root_fen=None, events=[])
                searches.append(cur)
            cur.update(root_fen=fen, thread=int(t[1]), nroot=int(t[2]), maxdepth=int(t[3]))
        elif tag == "E":
            t = line.split()
            evals.append((int(t[1]), int(t[2])))
        elif cur is None:
            continue
        elif tag == "N":
            if " | " in line:
                head, fen = line.split(" | ", 1)
            else:
                head, fen = line, None
            t = head.split()
            r = TraceRec()
            (r.id, r.parent, r.kind, r.move, r.fn, r.ply, r.depth, r.alpha, r.beta, r.score, r.site, r.ty, r.ic) = \
                (int(t[1]), int(t[2]), int(t[3]), int(t[4]), int(t[5]), int(t[6]), int(t[7]), int(t[8]), int(t[9]),
                 int(t[10]), int(t[11]), int(t[12]), int(t[13]))
            r.key = t[14]
            (r.ttty, r.ttraw, r.ttd, r.eval, r.mg, r.qid, r.ngen, r.nsearched, r.nfut) = [int(x) for x in t[15:24]]
            nf = int(t[24])
            r.finals = {}
            for i in range(nf):
                r.finals[int(t[25 + 2 * i])] = gid(int(t[26 + 2 * i]))
            r.id = gid(r.id)
            r.parent = gid(r.parent)
            r.qid = gid(r.qid)
            maxid = max([maxid, r.id, r.parent, r.qid] + list(r.finals.values()))
            r.fen = fen
            r.ok = False
            cur["events"].append(("N", r))
        elif tag == "R":
            t = [int(x) for x in line.split()[1:9]]
            t[7] = gid(t[7])
            maxid = max(maxid, t[7])
            cur["events"].append(("R", tuple(t)))
        elif tag == "D":
            t = line.split()
            cur["events"].append(("D", (int(t[1]), int(t[2]))))
        elif tag == "X":
            head, fen = line.split(" | ", 1)
            t = head.split()
            cur["events"].append(("X", dict(node=gid(int(t[1])), kind=int(t[3]), ply=int(t[5]), depth=int(t[6]), singular_move=code_to_uci(int(t[7])), fen=fen)))
    return searches, evals, maxid


SITE_NAMES = {1: "mate-distance-pruning", 2: "draw50-but-mated", 3: "draw50", 4: "draw-repetition", 5: "tt-cutoff", 6: "busy",
              7: "tb-cutoff", 8: "quiesce-at-depth0", 9: "razoring", 10: "reverse-futility", 11: "null-move",
              12: "cutoff-tt-lose-override", 13: "beta-cutoff", 14: "stalemate", 15: "singular-no-move", 16: "loop-end-exact",
              17: "loop-end-tt-win-override", 18: "loop-end-fail-low", 19: "tb-win-unknown-move",
              20: "q-standpat", 21: "q-cutoff", 22: "q-end", 0: "untagged"}


def thread_files(path):
    """trace files of one engine process: the main thread's and path.N of the helper threads"""
    out = [path] if os.path.exists(path) else []
    d, b = os.path.dirname(path), os.path.basename(path)
    for f in sorted(os.listdir(d)) if os.path.isdir(d) else []:
        if f.startswith(b + ".") and f[len(b) + 1:].isdigit():
            out.append(os.path.join(d, f))
    return out


MATED_NODE_SITES = {1: "mate-distance-pruning", 2: "draw50-but-mated", 5: "tt-cutoff", 8: "quiesce-at-depth0", 18: "loop-end-fail-low"}


def conformance_mate_in_one(searches, recs, fens, mating, stats, breaks):
    """Tie of the completeness model Search/MateInOneFlow.v: on traced single-thread searches of
    positions with a mating root move, (a) every completed iteration searched every legal root
    move, (b) the node of every mating root move was entered in check at depth-1 (no root
    reduction), left through one of the enumerated return sites with the mated score (or alpha at
    the mate-distance-pruning site) and the root used minus that value, (c) each completed
    iteration ended with an exact mate-1 score for a mating move and no other move got an exact /
    lower-bound score of mate 1 or better."""
    def bad(s, what, **kw):
        d = dict(kind="conformance", what="mate-in-one control flow not as modelled: " + what, fen=s["root_fen"], root_fen=s["root_fen"])
        d.update(kw)
        breaks.append(d)
    for s in searches:
        rf = s["root_fen"]
        if not rf or not mating.get(rf) or s.get("file", 0) > 0:
            continue
        ann = fens.get(rf)
        if ann is None:
            continue
        legal = set(c for c, _ in ann[1])
        by_depth = {}
        for tag, ev in s["events"]:
            if tag == "R":
                by_depth.setdefault(ev[0], []).append(ev)
        if not by_depth:
            continue
        stats["conformance_searches"] = stats.get("conformance_searches", 0) + 1
        done = any(tag == "D" for tag, _ in s["events"])
        for depth in sorted(by_depth):
            rs = by_depth[depth]
            searched = set(r[3] for r in rs)
            last = depth == max(by_depth)
            if searched != legal:
                if last and not done:
                    continue            # the search was stopped inside this iteration
                bad(s, "iteration %d searched %d of %d legal root moves" % (depth, len(searched & legal), len(legal)), depth=depth)
                continue
            stats["conformance_iterations"] = stats.get("conformance_iterations", 0) + 1
            exact_mate1 = False
            for (d_, mi, nmoves, move, alpha, beta, score, cid) in rs:
                u = code_to_uci(move)
                if u in mating[rf]:
                    c = recs.get(cid)
                    if c is None or c.kind != 8 or c.move != move or c.ply != 1:
                        bad(s, "no node record for mating root move %s at depth %d" % (u, depth), depth=depth, move=u)
                        continue
                    stats["conformance_mated_node_%s" % MATED_NODE_SITES.get(c.site, c.site)] = \
                        stats.get("conformance_mated_node_%s" % MATED_NODE_SITES.get(c.site, c.site), 0) + 1
                    okv = (c.site == 1 and c.score == c.alpha) or (c.site in (2, 5, 8, 18) and c.score == -(MATE0 - 2))
                    if c.site == 8:
                        q = recs.get(c.qid)
                        okv = okv and q is not None and q.site in (20, 22) and q.score == -(MATE0 - 2) and q.ic == 1
                    if not (c.site in MATED_NODE_SITES and okv and c.ic == 1 and c.depth == depth - 1
                            and c.alpha == -beta and c.beta == -alpha and score == -c.score):
                        bad(s, "node of mating root move %s: site %s, score %d, inCheck %d, depth %d at iteration %d, window (%d,%d) for root window (%d,%d), root score %d"
                            % (u, SITE_NAMES.get(c.site, c.site), c.score, c.ic, c.depth, depth, c.alpha, c.beta, alpha, beta, score), depth=depth, move=u)
                    if alpha < score < beta and score == MATE0 - 2:
                        exact_mate1 = True
                elif score > alpha and score >= MATE0 - 2:
                    bad(s, "non-mating root move %s got score %d (exact/lower bound) at depth %d" % (u, score, depth), depth=depth, move=u)
            if not exact_mate1:
                bad(s, "iteration %d has no exact mate-1 result for a mating move" % depth, depth=depth)


def justify_trace(ml_exe, harness_exe, path):
    """Check every mate-score node of one engine process's trace (all its threads).
    Returns (breaks, stats, number of checker verdicts, keys of distinct justified nodes).

    Multi-threaded processes: every thread has its own file and its own node ids; a table entry
    used by one thread may have been stored by another, and the files carry no common clock.
    The request stream (thread 0, then the helpers) is therefore handed to the checker several
    times: a node is accepted in the first pass in which everything it relies on has been
    accepted before, so every acceptance is still well-founded (C04_certificate_sound holds for
    any item list); a node accepted in no pass is a break."""
    stats = {}
    nev = 0
    keys = set()
    files = thread_files(path)
    mt = len(files) > 1
    searches, evals, nid = [], [], 0
    for fi, f in enumerate(files):
        s, e, nid = parse_trace(f, nid)
        for x in s:
            x["file"] = fi
        searches += s
        evals += e
    helper_roots = {}      # (fen4, alpha, beta, score) -> node id, root-level nodes of helper threads
    breaks = []
    for lo, hi in evals:
        stats["eval_min"] = min(stats.get("eval_min", 0), lo)
        stats["eval_max"] = max(stats.get("eval_max", 0), hi)
        if lo <= -HALF or hi >= HALF:
            breaks.append(dict(kind="hypothesis", what="static evaluation outside (-MATE0/2, MATE0/2): %d..%d" % (lo, hi)))
    # ---- oracle annotation of all positions of mate-score nodes and the roots (batch)
    fens = {}
    for s in searches:
        if s["root_fen"]:
            fens[s["root_fen"]] = None
        for tag, ev in s["events"]:
            if tag == "N" and ev.fen is not None:
                fens[ev.fen] = None
    fl = list(fens)
    ans = batch(harness_exe, ["A " + f for f in fl], timeout=1800)
    for f, a in zip(fl, ans):
        fens[f] = parse_annot(a)
    roots = sorted(set(s["root_fen"] for s in searches if s["root_fen"]))
    mating = {}
    for f, a in zip(roots, batch(harness_exe, ["Q %s | 1" % f for f in roots], timeout=1800)):
        tq = a.split()
        mating[f] = set(tq[1:]) if tq and tq[0] == "1" else set()
    # ---- build the request stream for the extracted checker
    reqs = []        # (line, meta); one fresh checker process per trace file
    recs = {}
    key2pos = {}
    for s in searches:
        if s.get("file", 0) > 0:
            for tag, r in s["events"]:
                if tag == "N" and r.ply == 1 and r.fn == 0 and r.kind == -1 and r.fen:
                    helper_roots[(fen4(r.fen), r.alpha, r.beta, r.score)] = r.id
    for si, s in enumerate(searches):
        root_ann = fens.get(s["root_fen"]) if s["root_fen"] else None
        root_moves = {c: f for c, f in root_ann[1]} if root_ann else {}
        last_r = {}     # root move code -> (depth, alpha, beta, score, child id)
        maxdepth_seen = 0
        for tag, ev in s["events"]:
            if tag == "N":
                r = ev
                recs[r.id] = r
                stats["nodes_logged"] = stats.get("nodes_logged", 0) + 1
                if not is_mate_score(r.score):
                    continue
                stats["mate_nodes"] = stats.get("mate_nodes", 0) + 1
                stats["site_%s" % SITE_NAMES.get(r.site, r.site)] = stats.get("site_%s" % SITE_NAMES.get(r.site, r.site), 0) + 1
                if r.site == 6:
                    stats["busy_markers"] = stats.get("busy_markers", 0) + 1
                    continue
                if r.kind == 4:
                    # the singular-extension verification search itself: table disabled, one move
                    # excluded, its value only steers the extension -> outside the rule system
                    stats["singular_nodes_excluded"] = stats.get("singular_nodes_excluded", 0) + 1
                    continue
                if r.site == 15:
                    breaks.append(dict(kind="node", what="node returns through the singular-search exit although it is not a singular verification search (stale searchTreeInfo.singularMove?)",
                                       site=SITE_NAMES.get(r.site), node=r.id, fen=r.fen, ply=r.ply, depth=r.depth, alpha=r.alpha, beta=r.beta,
                                       score=r.score, fn="negaScout", root_fen=s["root_fen"]))
                    continue
                if r.site in (7, 19):
                    stats["tb_nodes_outside_c04"] = stats.get("tb_nodes_outside_c04", 0) + 1
                    continue
                ann = fens.get(r.fen)
                if ann is None:
                    breaks.append(dict(kind="oracle", what="logged position rejected by the FEN reader", fen=r.fen, node=r.id))
                    continue
                # hypothesis: equal historyHash => equal position
                if r.fn == 0 and r.key != "0":
                    f4 = fen4(r.fen)
                    if key2pos.setdefault(r.key, f4) != f4:
                        breaks.append(dict(kind="hypothesis", what="historyHash collision", key=r.key, fen=r.fen, other=key2pos[r.key]))
                        continue
                ic, moves = ann
                if r.ic and not ic:
                    breaks.append(dict(kind="flag", what="node called with inCheck=true but the side to move is not in check", fen=r.fen, node=r.id))
                    continue
                if ic and not r.ic:
                    stats["incheck_flag_false_but_in_check"] = stats.get("incheck_flag_false_but_in_check", 0) + 1
                ch = []
                for code, fafter in moves:
                    cid = r.finals.get(code, 0)
                    c = recs.get(cid)
                    if c is not None and c.ok and c.site != 6 and c.kind in (0, 7) and c.fen is not None and fen4(c.fen) == fen4(fafter) \
                            and c.parent == r.id and c.move == code:
                        ch.append(cid)
                    else:
                        ch.append(0)
                q = 0
                c = recs.get(r.qid)
                if c is not None and c.ok and c.kind in (5, 6) and c.parent == r.id and c.fen is not None and fen4(c.fen) == fen4(r.fen):
                    q = r.qid
                line = "N %d %s %d %d %d %d %d %d %d %d %d %d %d %d %d %d %d %d %s" % (
                    r.id, r.key, r.fn, r.ply, r.depth, r.alpha, r.beta, r.score, r.site, r.ty, r.ic,
                    r.ttty, r.ttraw % 65536, r.ttd, r.mg, q, 1 if ic else 0, len(ch), " ".join(str(x) for x in ch))
                reqs.append((line.rstrip(), ("N", r, si)))
                r.ok = True          # provisional: corrected below when the checker says BAD (children of a
                #                      rejected node are re-evaluated by the checker itself: it only accepts a
                #                      child id it has accepted before)
            elif tag == "X":
                stats["stale_singular_nodes"] = stats.get("stale_singular_nodes", 0) + 1
                if stats["stale_singular_nodes"] <= 3:
                    breaks.append(dict(kind="state", what="node runs in singular-search mode (table disabled, move %s excluded) outside a singular verification search: "
                                       "no rule of the system covers it" % ev["singular_move"], fen=ev["fen"], ply=ev["ply"], depth=ev["depth"],
                                       call_kind=ev["kind"], root_fen=s["root_fen"]))
            elif tag == "R":
                depth, mi, nmoves, move, alpha, beta, score, cid = ev
                maxdepth_seen = max(maxdepth_seen, depth)
                last_r[move] = (depth, alpha, beta, score, cid, mi, nmoves)
                stats["root_searches"] = stats.get("root_searches", 0) + 1
                if score > HALF and score > alpha:
                    c = recs.get(cid)
                    ok_link = (c is not None and c.kind == 8 and c.move == move and c.ply == 1 and c.fen is not None
                               and move in root_moves and fen4(c.fen) == fen4(root_moves[move]))
                    n = model_mate_of_score(score)
                    if not ok_link and mt and move in root_moves:
                        # the score may have been imported from a helper thread (HelperThreadResult):
                        # the node that produced it is the root-level node of that helper's job
                        hid = helper_roots.get((fen4(root_moves[move]), -beta, -alpha, -score))
                        if hid is not None:
                            cid = hid
                            ok_link = True
                        else:
                            stats["root_scores_from_helpers_unlinked"] = stats.get("root_scores_from_helpers_unlinked", 0) + 1
                            continue
                    if not ok_link:
                        breaks.append(dict(kind="root", what="root win score without a matching logged child", fen=s["root_fen"],
                                           move=code_to_uci(move), score=score))
                    else:
                        reqs.append(("RW %d %d %d %d %d" % (cid, alpha, beta, score, n), ("RW", ev, si)))
            elif tag == "D":
                # completed search: the final iteration's best score
                if not last_r:
                    continue
                final_depth = max(v[0] for v in last_r.values())
                at = {m: v for m, v in last_r.items() if v[0] == final_depth}
                nmoves = next(iter(at.values()))[6]
                best = max(v[3] for v in at.values())
                if best < -HALF and len(at) == nmoves and root_ann and len(root_ann[1]) == nmoves:
                    ch = []
                    for code, fafter in root_ann[1]:
                        v = at.get(code)
                        c = recs.get(v[4]) if v else None
                        if c is not None and c.kind == 8 and c.move == code and c.fen is not None and fen4(c.fen) == fen4(fafter) and c.score == -v[3]:
                            ch.append(v[4])
                        elif mt and v and helper_roots.get((fen4(fafter), -v[2], -v[1], -v[3])) is not None:
                            ch.append(helper_roots[(fen4(fafter), -v[2], -v[1], -v[3])])
                        else:
                            ch.append(0)
                    n = -model_mate_of_score(best)
                    reqs.append(("RL %d %d %d %s" % (best, n, len(ch), " ".join(str(x) for x in ch)), ("RL", (best, s["root_fen"]), si)))
                last_r = {}
    # ---- run the extracted checker
    if not mt:
        conformance_mate_in_one(searches, recs, fens, mating, stats, breaks)
    nreq = len(reqs)
    outs = batch_retry(ml_exe, [l for l, _ in reqs], retry=mt)
    out = outs[:nreq]
    if mt:
        bad = [i for i in range(nreq) if out[i] != "OK"]
        later = 0
        for i, v in zip(bad, outs[nreq:]):
            if v == "OK":
                out[i] = "OK"
                later += 1
        stats["mt_processes_traced"] = 1
        stats["mt_nodes_accepted_only_after_retry"] = later
    for (l, meta), verdict in zip(reqs, out):
        kind = meta[0]
        if kind == "N":
            r = meta[1]
            nev += 1
            stats["mate_nodes_checked"] = stats.get("mate_nodes_checked", 0) + 1
            if verdict == "OK" and "sample" not in stats and r.site in (13, 16, 18, 22) and r.fen:
                stats["sample"] = {"justified_node": {"fen": r.fen, "function": "quiesce" if r.fn else "negaScout", "ply": r.ply, "depth": r.depth,
                                                       "window": [r.alpha, r.beta], "score": r.score, "return_site": SITE_NAMES.get(r.site), "checker_request": l}}
            if verdict != "OK":
                r.ok = False
                breaks.append(dict(kind="node", what="mate score with no applicable rule", site=SITE_NAMES.get(r.site, r.site),
                                   node=r.id, fen=r.fen, ply=r.ply, depth=r.depth, alpha=r.alpha, beta=r.beta, score=r.score,
                                   fn="quiesce" if r.fn else "negaScout", request=l, root_fen=searches[meta[2]]["root_fen"]))
            else:
                keys.add("n:%s:%d:%d:%d" % (fen4(r.fen), r.ply, r.score, r.site))
        elif kind == "RW":
            nev += 1
            stats["root_win_claims_checked"] = stats.get("root_win_claims_checked", 0) + 1
            if verdict != "OK":
                breaks.append(dict(kind="root", what="root win score not justified", request=l, fen=searches[meta[2]]["root_fen"]))
        elif kind == "RL":
            nev += 1
            stats["root_loss_claims_checked"] = stats.get("root_loss_claims_checked", 0) + 1
            if verdict != "OK":
                breaks.append(dict(kind="root", what="final root lose score not justified", request=l, fen=meta[1][1]))
    return breaks, stats, nev, keys




# =====================================================================================
# directed node searches (harness request D): negaScout called with chosen windows / plies
# =====================================================================================
NULL_THREAT_SEEDS = [
    # side to move has an unstoppable mate threat, material and pawns for the null move
    "6k1/p4p1p/5BpQ/8/8/8/P7/6K1 w - - 0 1",
    "6k1/p4p1p/5BpQ/8/8/8/P6P/6K1 w - - 0 1",
    "1k6/1p1R4/1K6/p7/P7/8/8/8 w - - 0 1",
    "7k/5Q1p/7K/p7/P7/8/8/8 w - - 0 1",
    "6k1/5ppp/8/8/8/2q5/r4PPP/6K1 b - - 0 1",
]


def directed_requests(ctx, positions):
    """positions: list of (fen, D or None).  Returns list of request lines."""
    rng = ctx.rng
    reqs = []
    windows = [(-MATE0, MATE0), (100, 101), (-101, -100), (0, 1), (-1, 0), (MATE0 - 20, MATE0 - 19), (-(MATE0 - 20), -(MATE0 - 21)),
               (HALF - 1, HALF + 1), (-HALF - 1, -HALF + 1), (-MATE0, -MATE0 + 40), (MATE0 - 40, MATE0), (300, 600), (-600, -300)]
    for fen, d in positions:
        for _ in range(ctx.scale(6, 30)):
            ply = rng.choice([1, 1, 2, 2, 3, 5, 8, 30, 100, 150])
            depth = rng.choice([0, 1, 2, 3, 4, 5, 5, 6, 7])
            r = rng.random()
            if d and r < 0.4:
                # windows around the true score of the position at that ply
                true = MATE0 - ply - (2 * d - 1) - 1
                a = true + rng.choice([-2, -1, 0, 1])
                w = (a, a + 1) if rng.random() < 0.7 else (a - rng.randint(0, 30), a + 1 + rng.randint(0, 30))
            else:
                w = rng.choice(windows)
            if w[0] >= w[1]:
                continue
            reqs.append("D %s | %d %d %d %d" % (fen, w[0], w[1], ply, depth))
        if rng.random() < 0.1:
            reqs.append("T")
    for seed in NULL_THREAT_SEEDS:
        for fen in (seed, mirror_fen(seed)):
            # lose-range window: normalBound is false below this node, so neither reverse futility nor
            # late-move/futility pruning hides the mate threat from the null-move search, which then
            # fails high with a win score: the isWinScore clamp of the null-move return is taken
            for depth in (5, 6):
                for w in ((-20001, -20000), (-31001, -31000)):
                    reqs.append("D %s | %d %d %d %d" % (fen, w[0], w[1], 2, depth))
            for depth in (5, 7, 10):
                for w in ((100, 101), (-50, -49), (700, 701)):
                    reqs.append("D %s | %d %d %d %d" % (fen, w[0], w[1], 2, depth))
    return reqs


def check_directed(oracle, reqs, answers, max_n, stats):
    """node-level finder: the score returned for a window claims a bound; test mate claims
    against the exhaustive solver."""
    fails = []
    for q, ans in zip(reqs, answers):
        if not q.startswith("D ") or ans.startswith("ERR"):
            continue
        fen, rest = q[2:].split(" | ")
        a, b, ply, depth = [int(x) for x in rest.split()]
        s = int(ans)
        stats["directed_nodes"] = stats.get("directed_nodes", 0) + 1
        if s > a and s > HALF:
            k = MATE0 - s - ply - 1
            n = (k + 1) // 2
            stats["directed_win_claims"] = stats.get("directed_win_claims", 0) + 1
            if k < 1:
                fails.append(dict(kind="node returns an impossible win score", fen=fen, request=q, claim="score %d at ply %d" % (s, ply),
                                  expected="a win score at ply p is at most MATE0-p-2"))
            elif n <= max_n:
                stats["directed_win_claims_solved"] = stats.get("directed_win_claims_solved", 0) + 1
                d, _ = oracle.mate_in(fen, n)
                if not d:
                    fails.append(dict(kind="node returns a false win score", fen=fen, request=q, claim="score %d at ply %d = mate in %d" % (s, ply, n),
                                      expected="no forced mate within %d moves (exhaustive solver)" % n))
        if s < b and s < -HALF:
            k = MATE0 + s - ply - 1
            n = k // 2
            stats["directed_lose_claims"] = stats.get("directed_lose_claims", 0) + 1
            if k < 0:
                fails.append(dict(kind="node returns an impossible lose score", fen=fen, request=q, claim="score %d at ply %d" % (s, ply),
                                  expected="a lose score at ply p is at least -(MATE0-p-1)"))
            elif n <= max_n:
                stats["directed_lose_claims_solved"] = stats.get("directed_lose_claims_solved", 0) + 1
                kk = oracle.mated_in(fen, n)
                if kk is None or kk < 0:
                    fails.append(dict(kind="node returns a false lose score", fen=fen, request=q, claim="score %d at ply %d = mated in %d" % (s, ply, n),
                                      expected="not mated within %d moves against every defence (exhaustive solver)" % n))
    return fails


# =====================================================================================
# searches with an emulated helper thread (harness request H): cooperative scheduling of the
# moment a helper result (HelperThreadResult) reaches the main thread
# =====================================================================================
def helper_requests(ctx, positions):
    rng = ctx.rng
    reqs = []
    for fen, e in positions:
        depth = rng.choice([10, 11, 12] if ctx.quick else [11, 12, 13, 14])
        mode = rng.choice([0, 0, 0, 1, 2])
        reqs.append("H %s | %d %d %d %d" % (fen, depth, mode, rng.choice([1, 1, 2, 4]), rng.choice([20, 50, 100])))
    return reqs


def parse_helper_answer(ans):
    parts = ans.split(" ; ")
    head = parts[0].split()
    inject = int(head[0].split("=")[1])
    best = head[1].split("=")[1]
    infos = []
    for p in parts[1:]:
        d, kind, val, bound, pv0 = p.split()
        infos.append((int(d), kind, int(val), "" if bound == "exact" else bound, [pv0] if pv0 != "-" else []))
    return inject, dict(infos=infos, bestmove=best)


def check_helper_runs(oracle, reqs, answers, max_n, stats):
    fails = []
    for q, ans in zip(reqs, answers):
        if ans.startswith("ERR"):
            continue
        fen = q[2:].split(" | ")[0]
        inject, res = parse_helper_answer(ans)
        stats["helper_searches"] = stats.get("helper_searches", 0) + 1
        stats["helper_results_delivered"] = stats.get("helper_results_delivered", 0) + inject
        for f in check_announcements(oracle, fen, res, max_n, stats):
            f["request"] = q
            f["helper_results_delivered"] = inject
            fails.append(f)
    return fails


# =====================================================================================
# (3a) leaf correspondence
# =====================================================================================
def leaf_requests(rng, n):
    reqs = []
    edge = [0, 1, -1, HALF, HALF + 1, HALF - 1, -HALF, -HALF - 1, -HALF + 1, MATE0, MATE0 - 1, MATE0 - 2, -MATE0, -MATE0 + 1,
            -MATE0 + 2, 32767, -32768, -32767, -32766, 32766, MATE0 - 200, -MATE0 + 200, HALF + 200, -HALF - 200]

    def score():
        r = rng.random()
        if r < 0.35:
            return rng.choice(edge) + rng.randint(-3, 3)
        if r < 0.6:
            return rng.choice([1, -1]) * (MATE0 - rng.randint(0, 400))
        if r < 0.8:
            return rng.randint(-MATE0, MATE0)
        return rng.randint(-40000, 40000)

    def ply():
        return rng.choice([0, 1, 2, 3, 199, 200, 201, 250]) if rng.random() < 0.3 else rng.randint(0, 200)
    for _ in range(n):
        k = rng.random()
        if k < 0.4:
            reqs.append("S %d %d %d" % (score(), ply(), ply()))
        elif k < 0.55:
            reqs.append("G %d %d" % (rng.choice([0, 65535, 32767, 32768, 16000, 16001, 49535, 49536]) if rng.random() < 0.3 else rng.randint(0, 65535), ply()))
        elif k < 0.8:
            reqs.append("W %d" % max(-32768, min(32767, score())))
        else:
            sc = max(-32768, min(32767, score()))
            a = sc + rng.randint(-2, 2) if rng.random() < 0.5 else rng.randint(-MATE0, MATE0)
            b = a + (1 if rng.random() < 0.5 else rng.randint(1, 500))
            reqs.append("C %d %d %d %d %d %d" % (rng.randint(0, 3), rng.randint(0, 20), sc, a, b, rng.randint(-2, 22)))
    return reqs


def leaf_correspondence(ctx, harness_exe, ml_exe, n):
    reqs = leaf_requests(ctx.rng, n)
    a = batch(harness_exe, reqs)
    b = batch(ml_exe, reqs)
    dis = []
    for q, x, y in zip(reqs, a, b):
        ctx.evaluated()
        k = q[0]
        ctx.count("leaf_" + {"S": "setScore_getScore", "G": "getScore", "W": "isWin_isLose_mateN", "C": "isCutOff"}[k])
        if k == "S":
            yt = y.split()
            ym = "%s %s" % (yt[0], yt[2])       # model also reports the no-overflow flag
            t = q.split()
            s, p1 = int(t[1]), int(t[2])
            inrange = -MATE0 <= s <= MATE0 and 0 <= p1 <= 200
            if inrange and yt[1] != "1":
                dis.append((q, x, y + "  (model: overflow inside the proved domain)"))
            if s > HALF:
                ctx.count("leaf_S_win")
            elif s < -HALF:
                ctx.count("leaf_S_lose")
            else:
                ctx.count("leaf_S_plain")
            if x != ym:
                dis.append((q, x, ym))
            ctx.nontrivial(q)
        else:
            if x != y:
                dis.append((q, x, y))
            if k == "W" and x.split()[2] != "none":
                ctx.count("leaf_W_mate")
            if k == "C" and x == "1":
                ctx.count("leaf_C_cut")
            ctx.nontrivial(q)
    return dis


# =====================================================================================
# sessions
# =====================================================================================
def run_session(sess):
    """One engine process.  sess: dict(exe, options, trace, jobs=[(fen, depth, newgame, tag)], harness).
    Returns (results, failures) where results = [(job, res)]."""
    eng = Engine(sess["exe"], sess["options"], trace=sess.get("trace"))
    out = []
    t_start = time.time()
    try:
        for job in sess["jobs"]:
            fen, depth, newgame, tag = job
            res = eng.go(fen, depth, newgame=newgame)
            out.append((job, res))
    finally:
        eng.quit()
    sess["search_s"] = round(time.time() - t_start, 1)
    oracle = Oracle(sess["harness"])
    fails = []
    stats = {}
    try:
        for idx, ((fen, depth, newgame, tag), res) in enumerate(out):
            f = check_announcements(oracle, fen, res, sess["max_n"], stats, want_mate1=(tag == "mate1"))
            for x in f:
                x["options"] = sess["options"]
                x["net"] = sess["net"]
                x["go_depth"] = depth
                x["session_jobs_before"] = [(j[0], j[1]) for j, _ in out[:idx]]
            fails += f
    finally:
        oracle.close()
    return out, fails, stats


def plan_sessions(ctx, oracle, engines, harness_exe, traced):
    rng = ctx.rng
    q = ctx.quick
    endg = [random_endgame(rng, oracle) for _ in range(ctx.scale(24, 80))]
    mates = find_mate_positions(ctx, oracle, ctx.scale(45, 400), ctx.scale(2, 3), ctx.scale(250, 1500))
    m1 = mate_in_one_set(ctx, oracle, ctx.scale(90, 400))
    # harvest more mate-in-one positions of rare kinds from the random-play set
    kinds_seen = {}
    m1pos = []
    for fen in m1 + [f for f, d, _ in mates if d == 1]:
        kinds, ms = mating_kinds(oracle, fen)
        if not ms:
            continue
        m1pos.append((fen, sorted(kinds)))
        for k in kinds:
            kinds_seen[k] = kinds_seen.get(k, 0) + 1
    ctx.notes["mate_in_one_kinds"] = kinds_seen
    mated = []
    for fen, d, ms in mates:
        if d >= 2 and len(mated) < ctx.scale(16, 120):
            a = oracle.annotate(fen)
            mp = uci_to_code_map(a[1])
            mated.append(mp[ms[0]][1])        # after the mating side's first move: the other side is mated in d-1
    jobs = []
    for fen in endg:
        jobs.append((fen, rng.choice([6, 7, 8, 8] if q else [6, 7, 8, 9]), rng.random() < 0.3, "endgame"))
    for fen, d, ms in mates:
        jobs.append((fen, rng.choice([3, 4, 5, 6, 7, 8] if q else [3, 5, 7, 9, 11]), rng.random() < 0.3, "mate%d" % d))
    for fen in mated:
        jobs.append((fen, rng.choice([4, 5, 6, 7, 8] if q else [4, 6, 8, 10]), rng.random() < 0.3, "mated"))
    m1jobs = []
    for fen, kinds in m1pos:
        for depth in ([1, 2, 3] if q else [1, 2, 3, 4, 6, 8, 14]):
            m1jobs.append((fen, depth, rng.random() < 0.5, "mate1"))
    rng.shuffle(jobs)
    # corpus of past failures first
    corpus = []
    cp = os.path.join(VERIF, "corpus", "c04.txt")
    if os.path.exists(cp):
        for line in open(cp):
            line = line.strip()
            if line and not line.startswith("#"):
                t = line.split("|")
                corpus.append((t[0].strip(), int(t[1]) if len(t) > 1 else 6, True, "corpus"))
    grid = []
    for net in engines:
        for hashmb in ([1, 4, 16] if q else [1, 2, 8, 16, 64]):
            for nullmove in ("true", "false"):
                grid.append((net, hashmb, nullmove, 1))
    rng.shuffle(grid)
    nsess = ctx.scale(8, 40)
    grid = grid[:nsess]
    sessions = []
    for i, (net, hashmb, nullmove, thr) in enumerate(grid):
        sessions.append(dict(exe=engines[net], net=net, harness=harness_exe, max_n=ctx.scale(2, 3),
                             options={"Hash": hashmb, "Threads": thr, "UseNullMove": nullmove}, jobs=[], trace=None, idx=i))
    alljobs = corpus + jobs + m1jobs
    for i, j in enumerate(alljobs):
        sessions[i % len(sessions)]["jobs"].append(j)
    # multi-threaded sessions (Threads 2-4, depth 10-14) on won/lost 3- and easy 4-man positions:
    # every announced mate is checked against the exact distance-to-mate oracle; with the hook the
    # per-thread traces are certified too (shorter mates only: the trace volume explodes once the
    # mate is found)
    K3 = ("KQK", "KRK")
    K4 = ("KRRK", "KQKN", "KQKB", "KQKR", "KQQK", "KRBK", "KRNK")
    groups = [
        # (sessions, searches each, dtm range, depths, traced, material classes, threads)
        (ctx.scale(1, 6), ctx.scale(2, 3), (3, 4), [10] if q else [10, 11], True, K3 + K4, [2, 3, 4]),      # short mates: traces full of mate-score nodes
        (ctx.scale(2, 16), ctx.scale(4, 6), (8, 16), [11, 12], True, K3, [2, 4, 4]),        # long mates searched below their depth: small traces,
        #                                                                       many singular verification searches (record X of hook H3b)
        (ctx.scale(2, 40), ctx.scale(3, 6), (5, 10), [12, 13] if q else [13, 14], False, ("KQK", "KQK", "KQK", "KRK"), [4]),   # finder only (the trace volume explodes
        #                                                                       once the mate is found): exact DTM oracle on every claim
        (ctx.scale(1, 12), 4, (4, 12), [10, 11], False, K4, [2, 3, 4]),       # easy 4-man positions, finder only
    ]
    nmtpos = 0
    for (ns, per, (lo, hi), depths, tr, kinds, thr) in groups:
        pool = dtm_endgames(rng, oracle, ns * per, lo, hi, kinds=kinds)
        nmtpos += len(pool)
        for i in range(ns):
            net = rng.choice(list(engines))
            s = dict(exe=engines[net], net=net, harness=harness_exe, max_n=ctx.scale(2, 3),
                     options={"Hash": rng.choice([4, 16]), "Threads": rng.choice(thr), "UseNullMove": rng.choice(["true", "true", "false"])},
                     jobs=[], trace=None, idx=len(sessions), mt=True, mt_trace=tr)
            for (fen, e) in pool[i * per:(i + 1) * per]:
                s["jobs"].append((fen, rng.choice(depths), rng.random() < 0.5, "mt_%s" % e[0]))
            if not tr and kinds == K4:
                for j in rng.sample(m1jobs, min(len(m1jobs), ctx.scale(6, 20))):
                    s["jobs"].append(j)
            sessions.append(s)
    ctx.count("mt_positions_exact_dtm", nmtpos)
    if traced:
        d = os.path.join("/tmp", "c04-%d" % os.getpid())
        os.makedirs(d, exist_ok=True)
        for s in sessions:
            if not s.get("mt") or s.get("mt_trace"):
                s["trace"] = os.path.join(d, "trace-%d.txt" % s["idx"])
    dpos = [(f, d) for f, d, _ in mates] + [(f, None) for f in endg[:ctx.scale(8, 60)]] + [(f, None) for f in mated]
    hpos = dtm_endgames(rng, oracle, ctx.scale(28, 300), 4, 12, kinds=K3)
    return sessions, dpos, hpos


# =====================================================================================
# the check
# =====================================================================================
def run(ctx):
    ctx.rule = ("searches: pawnless/low-material endgames (KQK, KRK, KQKR, ...), positions from random play in which an "
                "exhaustive solver finds a forced mate in <= 2 (thorough: 3) moves, their successors (side to move is being "
                "mated), mate-in-one positions of all kinds (seeds + decorated seeds + harvested; classified independently); "
                "x depth x hash x null move on/off x 2 synthetic nets; non-trivial = a distinct (position, ply, score, "
                "return site) mate-score node justified by the extracted checker, or a distinct leaf-function tuple")
    ctx.trusted_base = ["Coq 8.16.1 kernel (coqc)", "extraction (ExtrOcamlBasic only) + OCaml 4.13 + drivers/c04_driver.ml",
                        "harness/c04_harness.cpp (MoveGen as position oracle: tied to the FIDE rules by C01)",
                        "hook H3 hooks/h3-search-trace.patch (records what the node did; positions are re-derived by the oracle)",
                        "tx/c04_consts.py", "props/c04.py (grouping of trace records; the extracted checker re-validates every link it is given)"]
    ctx.assumptions = ["forced mate = pure game-theoretic distance (claimable draws are not part of the game)",
                       "static evaluations lie strictly inside (-MATE0/2, MATE0/2) (checked on every traced search)",
                       "equal historyHash means equal position (checked on every traced mate-score node)",
                       "full playing strength; tablebase probes are outside C04 (C13)",
                       "rule system = code is established per traced node (certificates), not by proof"]
    breaks = []
    replay = {}
    # (1) translate
    try:
        path, changed = c04_consts.generate(REPO, VERIF)
        ctx.notes["translator"] = "coq/gen/SearchConsts.v %s" % ("rewritten" if changed else "unchanged")
    except c04_consts.TranslatorError as ex:
        breaks.append(dict(kind="translator", what=str(ex)))
    # (2) prove
    ok, info = coqbuild.prove(ctx, PROP_FILE, timeout=ctx.scale(900, 3600))
    if not ok:
        breaks.append(dict(kind="proof", what="theorem(s) in %s no longer check" % PROP_FILE, info=info))
    ctx.log("proved: ok=%s" % ok)
    # (3) build
    harness_exe = build_harness()
    ml_exe = coqbuild.extract("ExtractSearch.v", "c04_driver.ml", "c04_driver")
    engines = {"material": cbuild.build_engine(net_kind="material", net_seed=1),
               "random": cbuild.build_engine(net_kind="random", net_seed=ctx.seed)}
    ctx.log("built harness, driver, engines")
    traced = hooked_tree()
    ctx.notes["hook_H3_present"] = traced
    if not traced:
        ctx.notes["trace_certificates"] = ("SKIPPED: hook H3 (hooks/h3-search-trace.patch) is not applied to the tree under test; "
                                           "only the proofs, the leaf correspondence and the solver-based finder ran")
    # (3a) leaf correspondence
    dis = leaf_correspondence(ctx, harness_exe, ml_exe, ctx.scale(3000, 200000))
    if dis:
        breaks.append(dict(kind="leaf", what="leaf function model/implementation disagree", first=dis[0], count=len(dis)))
    ctx.log("leaf correspondence: %d disagreements" % len(dis))
    # (3b)+(5) searches
    oracle = Oracle(harness_exe)
    try:
        sessions, dpos, hpos = plan_sessions(ctx, oracle, engines, harness_exe, traced)
    finally:
        oracle.close()
    dreqs = directed_requests(ctx, dpos)
    hreqs = helper_requests(ctx, hpos)
    oracle2 = Oracle(harness_exe)
    try:
        special = null_clamp_scenarios(oracle2)
    finally:
        oracle2.close()
    ctx.log("planned %d sessions, %d searches" % (len(sessions), sum(len(s['jobs']) for s in sessions)))
    t0 = time.time()
    with ThreadPoolExecutor(max_workers=min(NCPU, 12)) as ex:
        results = list(ex.map(run_session, sessions))
    ctx.notes["search_wall_s"] = round(time.time() - t0, 1)
    ctx.notes["session_search_s"] = [(s["idx"], s["options"].get("Threads"), len(s["jobs"]), s.get("search_s")) for s in sessions]
    ctx.log("searches done")
    # directed node searches (harness): chunks, each one process with its own table and trace
    nchunk = ctx.scale(6, 24)
    chunks = [dreqs[i::nchunk] for i in range(nchunk)] + [[q for seq in special for q in seq]]
    nchunk = len(chunks)
    ctx.count("directed_null_clamp_scenarios", len(special))
    tdir = os.path.join("/tmp", "c04-%d" % os.getpid())
    if traced:
        os.makedirs(tdir, exist_ok=True)
    dtraces = [os.path.join(tdir, "dtrace-%d.txt" % i) if traced else None for i in range(nchunk)]

    def run_chunk(i):
        env = {"TEXEL_VERIF_TRACE": dtraces[i]} if dtraces[i] else {"TEXEL_VERIF_TRACE": ""}
        ans = batch(harness_exe, chunks[i], timeout=1800, env=env)
        orc = Oracle(harness_exe)
        st = {}
        try:
            f = check_directed(orc, chunks[i], ans, ctx.scale(2, 3), st)
        finally:
            orc.close()
        return f, st
    with ThreadPoolExecutor(max_workers=min(NCPU, 12)) as ex:
        dres = list(ex.map(run_chunk, range(nchunk)))
    ctx.log("directed node searches done: %d requests" % len(dreqs))
    # searches with an emulated helper thread: one process per request (a defect in the handling of
    # helper results may make the search loop; a request that does not finish is a break)
    # traced only where the mate is too far to be found at that depth (small traces: few mate-score
    # nodes, but record X of hook H3b is written whatever the scores are)
    htraces = [os.path.join(tdir, "htrace-%d.txt" % i) if traced and hpos[i][1][1] >= 8 else None for i in range(len(hreqs))]
    htimeout = ctx.scale(60, 600)

    def run_helper(i):
        env = {"TEXEL_VERIF_TRACE": htraces[i] or ""}
        rc, out, err = sh([harness_exe], input=hreqs[i] + "\n", timeout=htimeout, env=env)
        out = out.strip()
        if rc != 0 or not out or out.startswith("ERR"):
            return ("hang" if rc == 124 else "crash rc=%s %s" % (rc, out[:80])), [], {}
        orc = Oracle(harness_exe)
        st = {}
        try:
            f = check_helper_runs(orc, [hreqs[i]], [out], ctx.scale(2, 3), st)
        finally:
            orc.close()
        return None, f, st
    with ThreadPoolExecutor(max_workers=min(NCPU, 10)) as ex:
        hres = list(ex.map(run_helper, range(len(hreqs))))
    ctx.log("emulated-helper searches done: %d requests" % len(hreqs))
    fstats = {}
    finder_fails = []
    for f, st in dres:
        finder_fails += f
        for k, v in st.items():
            fstats[k] = fstats.get(k, 0) + v
    for i, (problem, f, st) in enumerate(hres):
        finder_fails += f
        for k, v in st.items():
            fstats[k] = fstats.get(k, 0) + v
        if problem:
            breaks.append(dict(kind="helper", what="search with an emulated helper thread did not finish normally (%s)" % problem,
                               request=hreqs[i], fen=hreqs[i][2:].split(" | ")[0]))
            htraces[i] = None
    ctx.evaluated(fstats.get("helper_searches", 0))
    ctx.evaluated(fstats.get("directed_nodes", 0))
    nsearch = 0
    for s, (out, fails, stats) in zip(sessions, results):
        nsearch += len(out)
        for k, v in stats.items():
            fstats[k] = fstats.get(k, 0) + v
        finder_fails += fails
        for (fen, depth, ng, tag), res in out:
            ctx.count("search_" + tag)
            if any(i[1] == "mate" for i in res["infos"]):
                ctx.count("searches_announcing_a_mate")
                ctx.nontrivial("s:%s:%d:%s" % (fen4(fen), depth, json.dumps(s["options"], sort_keys=True)))
            ctx.evaluated()
        ctx.count("sessions_mt" if s.get("mt") else "sessions_1thread")
    ctx.count("searches", nsearch)
    for k, v in fstats.items():
        ctx.count("finder_" + k, v)
    if results:
        (fen, depth, ng, tag), res = results[0][0][0]
        ctx.sample({"fen": fen, "go_depth": depth, "tag": tag, "last_info": res["infos"][-1] if res["infos"] else None, "bestmove": res["bestmove"]})
    # (3b) certificates
    tstats = {}
    if traced:
        t1 = time.time()
        with ThreadPoolExecutor(max_workers=min(NCPU, 12)) as ex:
            units = (list(sessions) + [dict(trace=p, options={"directed": True}, net="material") for p in dtraces]
                     + [dict(trace=p, options={"emulated_helper": hreqs[i]}, net="material") for i, p in enumerate(htraces)])
            tb = list(ex.map(lambda s: justify_trace(ml_exe, harness_exe, s["trace"]) if s.get("trace") else ([], {}, 0, set()), units))
        for s, (b, st, nev, keys) in zip(units, tb):
            for x in b:
                x["options"] = s["options"]
                x["net"] = s["net"]
            breaks += b
            ctx.evaluated(nev)
            for k in keys:
                ctx.nontrivial(k)
            if "sample" in st:
                ctx.sample(st.pop("sample"))
            for k, v in st.items():
                if k in ("eval_min",):
                    tstats[k] = min(tstats.get(k, 0), v)
                elif k in ("eval_max",):
                    tstats[k] = max(tstats.get(k, 0), v)
                else:
                    tstats[k] = tstats.get(k, 0) + v
        ctx.log("certificates: %s" % json.dumps(tstats, sort_keys=True))
        ctx.notes["return_sites_without_a_mate_score_node_in_this_run"] = sorted(
            str(v) for k, v in SITE_NAMES.items() if k not in (0, 3, 4, 6, 7, 14, 15, 19) and ("site_%s" % v) not in tstats)
        ctx.notes["certificate_wall_s"] = round(time.time() - t1, 1)
        ctx.traces_validated = sum(1 for s in units if s.get("trace"))
        for k, v in tstats.items():
            ctx.count("trace_" + k, v)
        for s in units:
            if s.get("trace") and os.path.exists(s["trace"]) and not os.environ.get("C04_KEEP_TRACES"):
                os.remove(s["trace"])
        if not os.environ.get("C04_KEEP_TRACES"):
            shutil.rmtree(tdir, ignore_errors=True)
        if tstats.get("mate_nodes_checked", 0) == 0:
            breaks.append(dict(kind="trace", what="hook present but no mate-score node was logged"))
    # verdict
    if len(finder_fails) > 5:
        ctx.notes["finder_failures_total"] = len(finder_fails)
    for f in finder_fails[:5]:
        key = "%s|%s|%s" % (fen4(f["fen"]), f["kind"].replace(" ", "_"), f.get("claim", f.get("move", "")).replace(" ", "_"))
        ctx.violation("%s: %s (%s)" % (f["kind"], f.get("claim", f.get("move", "")), f["expected"]),
                      {"failing_input": f, "broken": breaks[:5]}, key=key)
    if breaks and not finder_fails:
        found = finder_on_breaks(ctx, breaks, harness_exe, engines)
        if found:
            for f in found:
                key = "%s|%s|%s" % (fen4(f["fen"]), f["kind"].replace(" ", "_"), str(f.get("claim", "")).replace(" ", "_"))
                ctx.violation("%s: %s (%s)" % (f["kind"], f.get("claim", ""), f["expected"]), {"failing_input": f, "broken": breaks[:5]}, key=key)
        else:
            ctx.violation(breaks[0]["what"], {"broken": breaks[:20], "count": len(breaks)}, no_failing_input=True)


def node_claim(b):
    """what a rejected node's score claims about its position: ('win'|'lose', moves)"""
    s, ply = b["score"], b["ply"]
    if s > HALF:
        k = MATE0 - s - ply - 1           # plies
        return "win", (k + 1) // 2
    k = MATE0 + s - ply - 1
    return "lose", k // 2


def finder_on_breaks(ctx, breaks, harness_exe, engines):
    """(5) for broken certificates: test the rejected nodes' own claims and the roots of their
    searches against the exhaustive solver."""
    oracle = Oracle(harness_exe)
    found = []
    try:
        tested = 0
        for b in breaks:
            if b.get("kind") != "node" or tested >= ctx.scale(40, 400):
                continue
            if not (b["score"] > b["alpha"] and b["score"] > HALF) and not (b["score"] < b["beta"] and b["score"] < -HALF):
                continue     # neither an exact/lower win nor an exact/upper loss: the node claims nothing
            side, n = node_claim(b)
            if n > ctx.scale(2, 3):
                continue
            tested += 1
            ctx.count("finder_node_claims_solved")
            if side == "win":
                d, _ = oracle.mate_in(b["fen"], max(n, 1))
                bad = not d
            else:
                k = oracle.mated_in(b["fen"], n)
                bad = k is None or k < 0
            if bad:
                found.append(dict(kind="search node returns a false mate score", fen=b["fen"], claim="%s in %d (score %d at ply %d, %s site %s)" % (
                    side, n, b["score"], b["ply"], b["fn"], b["site"]), expected="exhaustive solver: no such forced %s" % side,
                    root_fen=b.get("root_fen"), options=b.get("options"), net=b.get("net")))
                if len(found) >= 3:
                    break
        if not found:
            # breaks that involve helper results (multi-threaded / emulated-helper searches): look for a
            # false announcement with the emulated helper on the positions involved
            hp = []
            for b in breaks:
                mtb = b.get("kind") in ("helper", "state") or (isinstance(b.get("options"), dict) and
                                                               (b["options"].get("Threads", 1) > 1 or "emulated_helper" in b["options"]))
                r = b.get("root_fen") or b.get("fen")
                if mtb and r and r not in hp and sum(1 for c in r.split()[0] if c.isalpha()) <= 4:
                    hp.append(r)
            stats = {}
            t_end = time.time() + ctx.scale(60, 900)
            for r in hp[:6]:
                for depth, mode, inj, iv in ((12, 0, 2, 20), (11, 0, 1, 50), (12, 0, 4, 50), (10, 0, 4, 20), (12, 0, 1, 20), (11, 0, 2, 100)):
                    if time.time() > t_end or found:
                        break
                    q = "H %s | %d %d %d %d" % (r, depth, mode, inj, iv)
                    rc, out, err = sh([harness_exe], input=q + "\n", timeout=40, env={"TEXEL_VERIF_TRACE": ""})
                    ctx.count("finder_helper_reruns")
                    if rc == 0 and out.strip() and not out.startswith("ERR"):
                        found += check_helper_runs(oracle, [q], [out.strip()], ctx.scale(2, 3), stats)
        if not found:
            # re-run the roots of the broken searches at several depths against the solver
            roots = []
            for b in breaks:
                r = b.get("root_fen") or b.get("fen")
                if r and r not in roots:
                    roots.append(r)
            stats = {}
            for r in roots[:ctx.scale(10, 100)]:
                for net, exe in engines.items():
                    eng = Engine(exe, {"Hash": 1, "Threads": 1})
                    try:
                        for depth in (2, 4, 6):
                            res = eng.go(r, depth, newgame=False)
                            ctx.count("finder_root_reruns")
                            for f in check_announcements(oracle, r, res, ctx.scale(2, 3), stats):
                                f["net"] = net
                                f["options"] = {"Hash": 1, "Threads": 1}
                                f["go_depth"] = depth
                                found.append(f)
                    finally:
                        eng.quit()
                if found:
                    break
    finally:
        oracle.close()
    return found


def replay(ctx, body):
    r = body.get("replay", {})
    f = r.get("failing_input")
    harness_exe = build_harness()
    oracle = Oracle(harness_exe)
    try:
        if not f:
            print("no concrete failing input recorded; broken:", json.dumps(r.get("broken"), indent=1)[:3000])
            return
        print("failing input:", json.dumps(f, indent=1))
        fen = f["fen"]
        if str(f.get("request", "")).startswith("H "):
            rc, out, err = sh([harness_exe], input=f["request"] + "\n", timeout=120, env={"TEXEL_VERIF_TRACE": ""})
            print("search with emulated helper now:", "rc=%s" % rc, out.strip()[:600])
            if rc == 0 and out.strip() and not out.startswith("ERR"):
                print("re-check:", check_helper_runs(oracle, [f["request"]], [out.strip()], 3, {}))
            print("exact oracle:", oracle.dtm(fen))
            return
        if str(f.get("request", "")).startswith("D "):
            # directed node search: the table state of the original run is not reproduced (fresh table)
            print("directed node search now returns:", batch(harness_exe, [f["request"]]))
        print("solver: mate_in<=3:", oracle.mate_in(fen, 3), " mated_in<=3:", oracle.mated_in(fen, 3))
        if f.get("go_depth"):
            exe = cbuild.build_engine(net_kind=f.get("net", "material"), net_seed=1 if f.get("net", "material") == "material" else ctx.seed)
            eng = Engine(exe, f.get("options", {"Hash": 1}))
            try:
                for (pf, pd) in f.get("session_jobs_before", []):
                    eng.go(pf, pd)
                res = eng.go(fen, f["go_depth"])
                for i in res["infos"]:
                    print("  info", i)
                print("  bestmove", res["bestmove"])
                stats = {}
                print("re-check:", check_announcements(oracle, fen, res, 3, stats, want_mate1=f["kind"].startswith("mate in one")))
            finally:
                eng.quit()
    finally:
        oracle.close()
