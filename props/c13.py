"""C13 — with tablebase knowledge the engine reports exact results and keeps them: LEAF part
(DESIGN.md section 6, C13: C13_probe_margin, C13_swindle_range).

  (1) translate  tx/c04_consts.py (SearchConst constants incl. minFrustrated/maxFrustrated)
  (2) prove      coq/Properties_C13.v
  (3) correspond extracted Search/TBRules.v vs the real code: Evaluate::swindleScore is called
                 directly; rule50Margin/updateEvScore are static inline functions of tbprobe.cpp, so
                 their SOURCE TEXT is copied from the current tree into a generated translation unit
                 compiled with the harness (props/c04.py:c13_rule50_source)
  (5) find       the implementation against the specification side of the two theorems on the
                 same tuples (exact iff the mate fits before the 50-move limit; swindle ranges)

Not covered (open): the TB rules of the search (C13_rules_sound_with_tb), C13_shortest_mate_move,
UCI-level runs on <=4-man roots with the on-demand tables.
"""
from tx import c04_consts
from vlib import coqbuild
from vlib.common import REPO, VERIF

from props import c04

PROP_FILE = "Properties_C13.v"
MATE0 = 32000


def gen_requests(rng, n):
    reqs = []
    for _ in range(n):
        if rng.random() < 0.55:
            ply = rng.choice([0, 1, 2, 5, 40, 199, 200]) if rng.random() < 0.4 else rng.randint(0, 200)
            hmc = rng.choice([0, 1, 49, 50, 98, 99]) if rng.random() < 0.4 else rng.randint(0, 99)
            r = rng.random()
            if r < 0.6:
                k = max(0, 100 - hmc + rng.randint(-3, 3))        # around the boundary
            elif r < 0.9:
                k = rng.randint(0, 140)
            else:
                k = rng.randint(0, 600)
            sign = rng.choice([1, -1])
            dtm = sign * (MATE0 - ply - k - 1)
            if rng.random() < 0.05:
                dtm = rng.choice([0, 1, -1, 16000, -16001, 20000])  # outside the theorem's domain: still compared
            old = 0 if rng.random() < 0.5 else rng.choice([1, -1]) * rng.randint(1, 150)
            reqs.append("R %d %d %d %d" % (dtm, ply, hmc, old))
        else:
            r = rng.random()
            if r < 0.5:
                ev = rng.choice([0, 1, -1, 3, 4, 11, 12, 27, 28, 59, 60, 123, 124, 251, 252, 508, 1020, 2044, 15999, -15999, 32767, -32767]) + rng.randint(-1, 1)
            else:
                ev = rng.randint(-20000, 20000)
            dist = 0 if rng.random() < 0.45 else rng.choice([1, -1]) * (rng.choice([1, 2, 35, 36, 37, 70, 71, 1000]) if rng.random() < 0.5 else rng.randint(1, 1200))
            reqs.append("X %d %d" % (ev, dist))
    return reqs


def spec_check(req, ans):
    """the implementation's answer against the specification side of the theorems"""
    t = req.split()
    if t[0] == "R":
        dtm, ply, hmc, old = [int(x) for x in t[1:]]
        if abs(dtm) <= 16000 or not (0 <= ply <= 200):
            return None
        k = MATE0 - ply - abs(dtm) - 1
        if k < 0:
            return None
        margin, ev = [int(x) for x in ans.split()]
        exact = margin >= 0                       # what tbProbe does with it
        if exact != (k + hmc <= 100):
            return "exact=%s but mate in %d plies with half-move clock %d" % (exact, k, hmc)
        if not exact:
            want = (1 if dtm > 0 else -1) * (k + hmc - 100)
            if old == 0 or abs(want) < abs(old):
                if ev != want:
                    return "swindle distance %d, expected %d" % (ev, want)
            elif ev != old:
                return "swindle distance %d, expected unchanged %d" % (ev, old)
        return None
    ev, dist = int(t[1]), int(t[2])
    r = int(ans)
    if abs(r) > 70:
        return "|swindle| > maxFrustrated"
    if dist == 0:
        if abs(r) >= 35 or (ev >= 0 and r < 0) or (ev < 0 and r > 0):
            return "draw swindle score %d outside (-minFrustrated, minFrustrated) or wrong sign" % r
    elif abs(r) < 35 or (dist > 0) != (r > 0):
        return "frustrated swindle score %d outside +-[35,70] or wrong sign" % r
    return None


def run(ctx):
    ctx.rule = ("R: (dtm score, ply, half-move clock, old distance) tuples biased to the boundary k + hmc = 100; "
                "X: (evaluation, distance) tuples biased to powers of two and the frustrated range; "
                "non-trivial = distinct tuple; each is compared model vs real code and checked against the spec")
    ctx.trusted_base = ["Coq 8.16.1 kernel (coqc)", "extraction (ExtrOcamlBasic only) + OCaml 4.13 + drivers/c13_driver.ml",
                        "harness/c04_harness.cpp + generated wrapper around the source text of rule50Margin/updateEvScore",
                        "tx/c04_consts.py"]
    ctx.assumptions = ["worst case for the 50-move margin: no pawn move or capture on the way to mate (as the code assumes)",
                       "only the leaf arithmetic is covered; the TB rules of the search and UCI-level runs are open"]
    breaks = []
    try:
        c04_consts.generate(REPO, VERIF)
    except c04_consts.TranslatorError as ex:
        breaks.append(dict(kind="translator", what=str(ex)))
    ok, info = coqbuild.prove(ctx, PROP_FILE, timeout=ctx.scale(900, 1800))
    if not ok:
        breaks.append(dict(kind="proof", what="theorem(s) in %s no longer check" % PROP_FILE, info=info))
    _, have_src = c04.c13_rule50_source()
    if not have_src:
        breaks.append(dict(kind="tie", what="rule50Margin/updateEvScore not found in tb/tbprobe.cpp (source text wrapper)"))
    harness_exe = c04.build_harness()
    ml_exe = coqbuild.extract("ExtractTB.v", "c13_driver.ml", "c13_driver")
    reqs = gen_requests(ctx.rng, ctx.scale(4000, 400000))
    a = c04.batch(harness_exe, reqs)
    b = c04.batch(ml_exe, reqs)
    dis = []
    specfail = []
    for q, x, y in zip(reqs, a, b):
        ctx.evaluated()
        ctx.nontrivial(q)
        ctx.count("rule50Margin" if q[0] == "R" else "swindleScore")
        if x != y:
            dis.append((q, x, y))
        if q[0] == "R":
            m = int(x.split()[0])
            ctx.count("margin_negative" if m < 0 else "margin_zero" if m == 0 else "margin_positive")
        else:
            ctx.count("swindle_draw" if q.split()[2] == "0" else "swindle_frustrated")
        s = spec_check(q, x)
        if s:
            specfail.append((q, x, s))
    ctx.sample({"request": reqs[0], "implementation": a[0], "model": b[0]})
    ctx.traces_validated = len(reqs)
    if dis:
        breaks.append(dict(kind="leaf", what="leaf function model/implementation disagree", first=dis[0], count=len(dis)))
    for q, x, s in specfail[:3]:
        ctx.violation("tablebase leaf arithmetic contradicts its specification: %s" % s,
                      {"failing_input": {"request": q, "implementation": x, "why": s}, "broken": breaks[:5]},
                      key="c13:" + q.replace(" ", "_"))
    if breaks and not specfail:
        ctx.violation(breaks[0]["what"], {"broken": breaks[:10]}, no_failing_input=True)


def replay(ctx, body):
    r = body.get("replay", {})
    f = r.get("failing_input")
    if not f:
        print("no concrete failing input recorded; broken:", r.get("broken"))
        return
    harness_exe = c04.build_harness()
    ans = c04.batch(harness_exe, [f["request"]])
    print("request:", f["request"], " implementation now:", ans[0], " spec check:", spec_check(f["request"], ans[0]))
