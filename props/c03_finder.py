"""C03 finder: drives the real UCI engine (synthetic nets) over the property's configuration grid and
checks every answer against the independent legal-move oracle props/c03_chess.py.

A *session* is one engine process running several searches (so that the transposition table, the
strength random seed and the engine's remembered state carry over between searches).  A session is a
list of steps; the replay of a violation is the session prefix up to the failing search (plain UCI
commands with the delays used), so it can be pasted into the engine."""
import os
import select
import subprocess
import time

from . import c03_chess as ch

MATE0 = 32000   # only used for the numeric range of the score grammar; the Coq side regenerates its own copy


# ------------------------------------------------------------------------------------------------
# positions
# ------------------------------------------------------------------------------------------------
CHECKMATES = [
    "rnb1kbnr/pppp1ppp/8/4p3/6Pq/5P2/PPPPP2P/RNBQKBNR w KQkq - 1 3",
    "r1bqkb1r/pppp1Qpp/2n2n2/4p3/2B1P3/8/PPPP1PPP/RNB1K1NR b KQkq - 0 4",
    "R5k1/5ppp/8/8/8/8/8/6K1 b - - 3 40",
    "7k/6Q1/6K1/8/8/8/8/8 b - - 10 70",
    "6rk/5Npp/8/8/8/8/8/6K1 b - - 0 1",
    "8/8/8/8/8/5k2/6q1/7K w - - 99 120",
]
STALEMATES = [
    "7k/5Q2/6K1/8/8/8/8/8 b - - 0 1",
    "k7/8/1Q6/8/8/8/8/2K5 b - - 4 50",
    "5bnr/4p1pq/4Qpkr/7p/7P/4P3/PPPP1PP1/RNB1KBNR b KQ - 2 10",
    "8/8/8/8/8/6k1/5q2/7K w - - 99 90",
    "k7/P7/K7/8/8/8/8/8 b - - 0 1",
]
SINGLE_MOVE = [
    "7k/8/8/8/8/8/r7/7K w - - 0 1",
    "4k3/8/8/8/8/8/4q3/R3K3 w Q - 0 1",
    "r3k2r/8/8/8/8/8/8/4K2R b kq - 0 1",     # several moves; kept as castling root (classified by the oracle)
    "6k1/8/8/8/8/8/5PPP/3r2K1 w - - 0 1",     # mate (classified by the oracle)
    "7k/7P/7K/8/8/8/8/1q6 b - - 0 1",
    "k7/2Q5/8/8/8/8/8/7K b - - 0 1",
]
MATE_IN_N = [
    "6k1/5ppp/8/8/8/8/8/R5K1 w - - 0 1",                                    # mate in 1
    "k7/8/1K6/8/8/8/8/7R w - - 0 1",                                         # mate in 1
    "r1bqkb1r/pppp1ppp/2n2n2/4p2Q/2B1P3/8/PPPP1PPP/RNB1K1NR w KQkq - 4 4",   # mate in 1
    "7k/8/5K2/8/8/8/8/6R1 w - - 0 1",                                        # mate in 2
    "k7/2K5/8/8/8/8/8/1R6 b - - 0 1",                                        # mated in 1
    "6k1/5ppp/8/8/8/8/5PPP/r5K1 w - - 0 1",                                  # is mated (checkmate root)... classified by the oracle
    "8/8/8/8/8/2k5/1q6/K7 w - - 0 1",                                        # checkmate
    "8/8/8/8/8/1k6/3q4/K7 b - - 0 1",                                        # mate in 1 for black
    "4k3/8/4K3/8/8/8/8/7Q w - - 0 1",                                        # mate in 1 (several)
]
ENDGAMES = ["KQk", "KRk", "Kkq", "Kkr", "KPk", "Kkp", "KBNk", "KQkq", "KQkr", "KRkr", "KRkb", "KRkn", "KPkp",
            "KQkp", "KBkn", "KNNk", "KBBk", "Kk", "KNk", "KRkp", "KQQk", "KRRk", "Kkbn", "KBkb"]


def random_game(rng, nplies, start=None):
    """Random legal game; returns (list of uci moves, final position, list of (moves-prefix-len, pos))."""
    pos = start or ch.parse_fen(ch.START_FEN)
    moves = []
    for _ in range(nplies):
        lm = ch.legal_moves(pos)
        if not lm:
            break
        # bias towards captures/checks a little, to reach sparse positions
        caps = [m for m in lm if pos[0][m[1]] != "."]
        m = rng.choice(caps) if caps and rng.random() < 0.35 else rng.choice(lm)
        moves.append(ch.uci(m))
        pos = ch.make(pos, m)
    return moves, pos


def random_endgame(rng):
    for _ in range(1000):
        mat = rng.choice(ENDGAMES)
        board = ["."] * 64
        ok = True
        for c in mat:
            for _ in range(50):
                s = rng.randrange(64)
                if board[s] != ".":
                    continue
                if c in "Pp" and (s >> 3) in (0, 7):
                    continue
                board[s] = c
                break
            else:
                ok = False
        if not ok:
            continue
        wk, bk = board.index("K"), board.index("k")
        if max(abs((wk & 7) - (bk & 7)), abs((wk >> 3) - (bk >> 3))) <= 1:
            continue
        wtm = rng.random() < 0.5
        # side not to move must not be in check
        if ch.attacked(board, bk if wtm else wk, wtm):
            continue
        hmc = rng.choice([0, 0, 0, 10, 60, 90, 98, 99])
        return (tuple(board), wtm, "", -1, hmc, 60)
    raise RuntimeError("no endgame position")


def gen_position(rng, kind=None):
    """Returns dict(kind, cmd, pos) where cmd is the UCI position command and pos the oracle position."""
    kind = kind or rng.choice(["game", "game", "game", "game", "gamefen", "mate", "stalemate", "single", "matein",
                               "fifty", "fifty", "endgame", "endgame", "endgame"])
    if kind == "matein":
        fen = rng.choice(MATE_IN_N)
        return dict(kind=kind, cmd="position fen " + fen, pos=ch.parse_fen(fen))
    if kind == "game":
        mv, pos = random_game(rng, rng.choice([0, 1, 2, 6, 10, 20, 30, 40, 60, 80, 120]))
        return dict(kind=kind, cmd="position startpos" + (" moves " + " ".join(mv) if mv else ""), pos=pos)
    if kind == "gamefen":
        mv, pos = random_game(rng, rng.choice([10, 20, 40, 60, 100]))
        mv2, pos2 = random_game(rng, rng.choice([0, 1, 4, 8]), start=pos)
        return dict(kind=kind, cmd="position fen " + ch.to_fen(pos) + (" moves " + " ".join(mv2) if mv2 else ""), pos=pos2)
    if kind in ("mate", "stalemate", "single"):
        fen = rng.choice({"mate": CHECKMATES, "stalemate": STALEMATES, "single": SINGLE_MOVE}[kind])
        if kind == "single" and rng.random() < 0.6:
            # search random games for a root with exactly one legal move
            for _ in range(40):
                pos = ch.parse_fen(ch.START_FEN)
                mv = []
                found = None
                for ply in range(150):
                    lm = ch.legal_moves(pos)
                    if not lm:
                        break
                    if len(lm) == 1 and ply > 0:
                        found = (list(mv), pos)
                        if rng.random() < 0.7:
                            break
                    m = rng.choice(lm)
                    mv.append(ch.uci(m))
                    pos = ch.make(pos, m)
                if found:
                    return dict(kind=kind, cmd="position startpos moves " + " ".join(found[0]), pos=found[1])
        return dict(kind=kind, cmd="position fen " + fen, pos=ch.parse_fen(fen))
    if kind == "fifty":
        # positions one ply from (or at/over) the 50-move limit
        if rng.random() < 0.5:
            pos = random_endgame(rng)
        else:
            _, pos = random_game(rng, rng.choice([30, 60, 90]))
        hmc = rng.choice([99, 99, 99, 98, 100, 97, 101, 150])
        pos = pos[:4] + (hmc, max(pos[5], hmc // 2 + 1))
        if rng.random() < 0.5 and hmc >= 98:
            # reach the clock value through played moves instead of the FEN field
            back = rng.choice([1, 2, 3])
            pos0 = pos[:4] + (hmc - back, pos[5])
            mv = []
            p = pos0
            good = True
            for _ in range(back):
                lm = [m for m in ch.legal_moves(p) if p[0][m[1]] == "." and p[0][m[0]].upper() != "P"]
                if not lm:
                    good = False
                    break
                m = rng.choice(lm)
                mv.append(ch.uci(m))
                p = ch.make(p, m)
            if good and p[4] == hmc:
                return dict(kind=kind, cmd="position fen " + ch.to_fen(pos0) + " moves " + " ".join(mv), pos=p)
        return dict(kind=kind, cmd="position fen " + ch.to_fen(pos), pos=pos)
    if kind == "endgame":
        pos = random_endgame(rng)
        mv, pos2 = random_game(rng, rng.choice([0, 0, 1, 3]), start=pos)
        return dict(kind=kind, cmd="position fen " + ch.to_fen(pos) + (" moves " + " ".join(mv) if mv else ""), pos=pos2)
    raise ValueError(kind)


# ------------------------------------------------------------------------------------------------
# limits and options
# ------------------------------------------------------------------------------------------------
def gen_options(rng, thorough):
    o = {}
    if rng.random() < 0.7:
        o["Hash"] = rng.choice([1, 1, 2, 4, 8, 16, 32, 64])
    if rng.random() < 0.5:
        o["Threads"] = rng.choice([1, 2, 2, 3, 4] + ([6, 8] if thorough else []))
    if rng.random() < 0.6:
        o["MultiPV"] = rng.choice([1, 2, 2, 3, 4, 5])
    r = rng.random()
    if r < 0.30:
        o["Strength"] = rng.choice([0, 0, 1, 10, 50, 100, 150, 199, 200, 300, 500, 900, 999, 1000])
    elif r < 0.45:
        o["UCI_LimitStrength"] = "true"
        o["UCI_Elo"] = rng.choice([-625, -600, 0, 500, 1000, 1349, 1350, 1500, 2099, 2100, 2500, 2900])
    if rng.random() < 0.15:
        o["MaxNPS"] = rng.choice([100, 1000, 5000, 50000, 1000000])
    if rng.random() < 0.3:
        o["UseNullMove"] = rng.choice(["true", "false"])
    if rng.random() < 0.3:
        o["UCI_AnalyseMode"] = rng.choice(["true", "false"])
    if rng.random() < 0.3:
        o["Contempt"] = rng.choice([-2000, -500, -50, 0, 20, 100, 1000, 2000])
    if rng.random() < 0.15:
        o["AnalyzeContempt"] = rng.choice([-2000, -100, 0, 100, 2000])
    return o


DEFAULTS = {"Hash": 16, "Threads": 1, "MultiPV": 1, "Strength": 1000, "UCI_LimitStrength": "false", "UCI_Elo": 1500,
            "MaxNPS": 0, "UseNullMove": "true", "UCI_AnalyseMode": "false", "Contempt": 0, "AnalyzeContempt": 0}


def nps_cap(opts):
    """Effective node-rate cap (EngineControl::getMaxNPS); None = unlimited."""
    cap = int(opts.get("MaxNPS", 0)) or None
    if str(opts.get("UCI_LimitStrength", "false")) == "true":
        elo = int(opts.get("UCI_Elo", 1500))
        c2 = 10000 if elo < 1350 else 100000 if elo < 2100 else 750000
        cap = min(cap, c2) if cap else c2
    return cap


def is_slow(opts):
    """Configurations in which the engine throttles itself (sleeps): keep their limits small."""
    cap = nps_cap(opts)
    return cap is not None and cap <= 20000


def gen_limit(rng, opts, thorough, npieces):
    slow = is_slow(opts)
    cap = nps_cap(opts) or 10 ** 9
    maxd = 12 if thorough else 8
    kinds = ["depth", "depth", "depth", "nodes", "movetime", "clock", "mate", "infinite", "infinite", "ponder", "combo"]
    if cap <= 2000:
        kinds = ["nodes", "movetime", "infinite", "infinite", "clock"]      # anything else would take minutes
    kind = rng.choice(kinds)
    stop_after = None
    ponderhit = None
    if kind == "depth":
        d = rng.randint(1, 3 if slow else maxd)
        if npieces > 20 and d > 6 and not thorough:
            d = 6
        go = "go depth %d" % d
    elif kind == "nodes":
        go = "go nodes %d" % rng.choice([n for n in [1, 2, 10, 100, 1000, 3000, 20000, 100000] if n <= 2 * cap])
    elif kind == "movetime":
        go = "go movetime %d" % rng.choice([1, 2, 10, 30, 100, 250])
    elif kind == "clock":
        w = rng.choice([1, 10, 100, 500, 2000, 5000, 20000])
        b = rng.choice([1, 10, 100, 500, 2000, 5000, 20000])
        go = "go wtime %d btime %d" % (w, b)
        if rng.random() < 0.5:
            go += " winc %d binc %d" % (rng.choice([0, 10, 100]), rng.choice([0, 10, 100]))
        if rng.random() < 0.4:
            go += " movestogo %d" % rng.choice([1, 2, 10, 40])
    elif kind == "mate":
        go = "go mate %d" % rng.randint(1, 2 if slow else 4)
    elif kind == "infinite":
        go = "go infinite"
        stop_after = rng.choice([0, 0, 1, 3, 10, 30, 100, 300])
    elif kind == "ponder":
        go = "go ponder wtime %d btime %d" % (rng.choice([100, 2000, 10000]), rng.choice([100, 2000, 10000]))
        if rng.random() < 0.6:
            ponderhit = rng.choice([0, 5, 50, 150])
        else:
            stop_after = rng.choice([0, 5, 50, 150])
    else:
        go = "go depth %d nodes %d" % (rng.randint(1, 3 if slow else maxd), rng.choice([50, 2000, 50000]))
        if rng.random() < 0.5:
            go += " movetime %d" % rng.choice([20, 200])
    return dict(kind=kind, go=go, stop_after=stop_after, ponderhit=ponderhit)


def gen_searchmoves(rng, pos):
    """Returns the list of searchmoves tokens (possibly with illegal moves / duplicates) or []."""
    legal = sorted(ch.legal_uci(pos))
    r = rng.random()
    if r < 0.55:
        return [], "none"
    if r < 0.80 and legal:
        k = rng.choice([1, 1, 2, 3, 5, len(legal)])
        return rng.sample(legal, min(k, len(legal))), "subset"
    if r < 0.88 and legal:
        sm = rng.sample(legal, min(2, len(legal)))
        return sm + [sm[0]] + ["a1a8", "h7h8q"], "subset+dup+illegal"
    if r < 0.95:
        bad = [m for m in ["a1a8", "e2e5", "b1b8", "h2h8", "e7e8q", "a2a1n", "c3c6"] if m not in legal]
        return bad[:rng.randint(1, 3)], "illegal-only"
    return legal, "all"


def gen_session(rng, thorough, nsearch):
    net = rng.choice([("material", 1), ("random", 2), ("random", 3), ("extreme", 4)])
    steps = []
    opts_now = {}
    for i in range(nsearch):
        o = gen_options(rng, thorough) if (i == 0 or rng.random() < 0.6) else {}
        # sometimes go back to defaults for options set earlier (keeps sessions from being all "slow")
        if i > 0 and rng.random() < 0.3:
            for k in list(opts_now):
                if k in ("Strength", "UCI_LimitStrength", "MaxNPS") and k not in o:
                    o[k] = DEFAULTS[k]
        opts_now.update(o)
        p = gen_position(rng)
        npieces = sum(1 for c in p["pos"][0] if c != ".")
        lim = gen_limit(rng, opts_now, thorough, npieces)
        if p["kind"] == "endgame" and rng.random() < 0.25 and not is_slow(opts_now) and "p" not in "".join(p["pos"][0]).lower():
            # give the on-demand tablebase generator (needs Hash >= 8, no time limit) a chance to finish
            lim = dict(kind="infinite", go="go infinite", stop_after=rng.choice([700, 1500]), ponderhit=None)
            if int(opts_now.get("Hash", 16)) < 8:
                o["Hash"] = 16
                opts_now["Hash"] = 16
        sm, smkind = gen_searchmoves(rng, p["pos"])
        steps.append(dict(options=o, newgame=(rng.random() < 0.25), position=p["cmd"], poskind=p["kind"],
                          fen=ch.to_fen(p["pos"]), go=lim["go"], limit=lim["kind"], stop_after=lim["stop_after"],
                          ponderhit=lim["ponderhit"], searchmoves=sm, smkind=smkind, opts_now=dict(opts_now)))
    return dict(net=net, steps=steps)


# ------------------------------------------------------------------------------------------------
# engine driver
# ------------------------------------------------------------------------------------------------
class Engine:
    def __init__(self, exe, env=None):
        e = None
        if env:
            e = dict(os.environ)
            e.update(env)
        self.p = subprocess.Popen([exe], stdin=subprocess.PIPE, stdout=subprocess.PIPE, stderr=subprocess.DEVNULL,
                                  bufsize=0, env=e)
        self.buf = b""
        self.log = []          # transcript: (">"|"<", text)

    def send(self, line):
        self.log.append(">" + line)
        try:
            self.p.stdin.write((line + "\n").encode())
            self.p.stdin.flush()
        except (BrokenPipeError, OSError):
            pass

    def readline(self, deadline):
        """One output line, or None on timeout / EOF ("" distinguishes nothing: check self.p.poll())."""
        while b"\n" not in self.buf:
            left = deadline - time.time()
            if left <= 0:
                return None
            r, _, _ = select.select([self.p.stdout], [], [], min(left, 0.5))
            if r:
                chunk = os.read(self.p.stdout.fileno(), 65536)
                if not chunk:
                    return None
                self.buf += chunk
        line, self.buf = self.buf.split(b"\n", 1)
        s = line.decode(errors="replace").rstrip("\r")
        self.log.append("<" + s)
        return s

    def wait_for(self, prefix, timeout):
        deadline = time.time() + timeout
        out = []
        while True:
            l = self.readline(deadline)
            if l is None:
                return out, False
            out.append(l)
            if l.startswith(prefix):
                return out, True

    def close(self):
        try:
            self.send("quit")
            self.p.stdin.close()
        except Exception:
            pass
        try:
            self.p.wait(timeout=5)
        except Exception:
            self.p.kill()
            self.p.wait()


def step_commands(step):
    """The UCI commands of one step (for replays); delays are given as ('sleep', ms)."""
    cmds = []
    for k, v in step["options"].items():
        cmds.append("setoption name %s value %s" % (k, v))
    if step["newgame"]:
        cmds.append("ucinewgame")
    cmds.append("isready")
    cmds.append(step["position"])
    go = step["go"]
    if step["searchmoves"]:
        go += " searchmoves " + " ".join(step["searchmoves"])
    cmds.append(go)
    if step["ponderhit"] is not None:
        cmds.append(("sleep", step["ponderhit"]))
        cmds.append("ponderhit")
    if step["stop_after"] is not None:
        cmds.append(("sleep", step["stop_after"]))
        cmds.append("stop")
    return cmds


def run_session(exe, session, per_search_timeout=60.0, env=None):
    """Runs all steps; returns list of per-step dict(lines=[engine output of the search], status=...)."""
    eng = Engine(exe, env=env)
    results = []
    try:
        eng.send("uci")
        _, ok = eng.wait_for("uciok", 60)
        if not ok:
            return [dict(lines=[], status="no-uciok")]
        for step in session["steps"]:
            t0 = time.time()
            lines = []
            status = "ok"
            for c in step_commands(step):
                if isinstance(c, tuple):
                    # keep collecting output while sleeping
                    deadline = time.time() + c[1] / 1000.0
                    while True:
                        l = eng.readline(deadline)
                        if l is None:
                            break
                        lines.append(l)
                    continue
                eng.send(c)
                if c == "isready":
                    out, ok = eng.wait_for("readyok", 30)
                    if not ok:
                        status = "no-readyok"
                        break
            got = any(l.startswith("bestmove") for l in lines)
            if status == "ok" and not got:
                out, ok = eng.wait_for("bestmove", per_search_timeout)
                lines += out
                if not ok:
                    status = "crash rc=%s" % eng.p.poll() if eng.p.poll() is not None else "no-bestmove"
            results.append(dict(lines=lines, status=status, wall=time.time() - t0))
            if status != "ok":
                break
    finally:
        eng.close()
    return results


# ------------------------------------------------------------------------------------------------
# checking one search's output against the oracle
# ------------------------------------------------------------------------------------------------
def parse_info(line):
    """info line -> dict(depth, score=('cp'|'mate', v), bounds=[...], multipv, pv=[...]) or None if no pv/score."""
    t = line.split()
    d = {"bounds": [], "raw": line}
    i = 1
    n = len(t)
    while i < n:
        k = t[i]
        if k == "pv":
            d["pv"] = t[i + 1:]
            break
        if k == "score":
            if i + 2 >= n:
                d["score_error"] = "truncated score"
                break
            d["score"] = (t[i + 1], t[i + 2])
            i += 3
            while i < n and t[i] in ("lowerbound", "upperbound"):
                d["bounds"].append(t[i])
                i += 1
            continue
        if k in ("depth", "time", "nodes", "nps", "tbhits", "multipv", "hashfull", "currmovenumber", "seldepth"):
            if i + 1 < n:
                d[k] = t[i + 1]
            i += 2
            continue
        if k == "currmove":
            d["currmove"] = t[i + 1] if i + 1 < n else None
            i += 2
            continue
        if k == "string":
            break
        i += 1
    return d


def check_search(step, lines, prev_searchmoves=None):
    """Returns list of (what, detail) violations of the property for one search's output."""
    bad = []
    root = ch.parse_fen(step["fen"])
    legal = ch.legal_uci(root)
    sm_tokens = step["searchmoves"]
    # the engine stops reading searchmoves at the first token that is not a move string; all generated tokens are
    requested = [m for m in sm_tokens]
    inter = [m for m in legal if m in requested]
    allowed = set(inter) if (requested and inter) else set(legal)
    maxpv = int(step["opts_now"].get("MultiPV", 1))
    best = [l for l in lines if l.startswith("bestmove")]
    if len(best) != 1:
        bad.append(("bestmove-count", "%d bestmove lines" % len(best)))
    report = []        # current multipv report: list of (index, first move)
    last_mpv = 0

    def close_report():
        firsts = [m for _, m in report]
        if len(set(firsts)) != len(firsts):
            bad.append(("multipv-duplicate-first-move", " | ".join("%d:%s" % x for x in report)))

    for l in lines:
        if l.startswith("info"):
            d = parse_info(l)
            if "score_error" in d:
                bad.append(("score-grammar", l))
            if "score" in d:
                kind, v = d["score"]
                try:
                    iv = int(v)
                except ValueError:
                    iv = None
                if kind not in ("cp", "mate") or iv is None or str(iv) != v:
                    bad.append(("score-grammar", l))
                elif kind == "cp" and abs(iv) > MATE0 // 2:
                    bad.append(("score-cp-out-of-range", l))
                elif kind == "mate" and (iv == 0 or abs(iv) > MATE0 // 4 + 1):
                    bad.append(("score-mate-distance", l))
                if len(d["bounds"]) > 1:
                    bad.append(("score-two-bounds", l))
            if "pv" in d:
                pv = d["pv"]
                if not pv:
                    bad.append(("pv-empty", l))
                else:
                    idx, _ = ch.play_line(root, pv)
                    if idx >= 0:
                        bad.append(("pv-illegal-move", "move %d (%s) of: %s" % (idx + 1, pv[idx], l)))
                    elif pv[0] not in allowed:
                        bad.append(("pv-first-move-not-in-searchmoves", l))
                if "multipv" in d:
                    k = int(d["multipv"])
                    if k < 1 or k > maxpv or k > max(1, len(allowed)):
                        bad.append(("multipv-index-out-of-range", l))
                    if k <= last_mpv:
                        close_report()
                        report = []
                    report.append((k, pv[0] if pv else "?"))
                    last_mpv = k
            if "currmove" in d and d["currmove"] not in allowed:
                bad.append(("currmove-not-a-root-move", l))
        elif l.startswith("bestmove"):
            t = l.split()
            bm = t[1] if len(t) > 1 else ""
            pm = t[3] if len(t) > 3 and t[2] == "ponder" else None
            if len(t) not in (2, 4) or (len(t) == 4 and t[2] != "ponder"):
                bad.append(("bestmove-grammar", l))
            if not legal:
                if bm != "0000":
                    bad.append(("bestmove-not-null-without-legal-moves", l))
            else:
                if bm == "0000":
                    if requested and not inter:
                        pass      # no requested move is legal: the property leaves the answer open
                    else:
                        bad.append(("bestmove-null-with-legal-moves", l))
                elif bm not in legal:
                    bad.append(("bestmove-illegal", l))
                elif bm not in allowed:
                    bad.append(("bestmove-not-in-searchmoves", l))
            if pm is not None:
                if pm == "0000":
                    bad.append(("ponder-null-printed", l))
                elif bm in legal:
                    after = ch.make(root, ch.parse_uci(bm))
                    if pm not in ch.legal_uci(after):
                        bad.append(("ponder-illegal", l))
                else:
                    bad.append(("ponder-after-illegal-bestmove", l))
    close_report()
    return bad


def classify_known(step, viol, prev_steps):
    """Key for a violation: the stale-searchmoves defect of `go ponder` gets its call-site key; everything
    else is keyed by the concrete failing input."""
    what = viol[0]
    if str(step["opts_now"].get("OwnBook", "false")) == "true" and what == "bestmove-not-in-searchmoves":
        return "EngineMainThread::doSearch:book-move-bypasses-searchmoves"
    if step["limit"] == "ponder" and what in ("bestmove-null-with-legal-moves", "bestmove-not-in-searchmoves",
                                              "pv-first-move-not-in-searchmoves", "currmove-not-a-root-move",
                                              "multipv-index-out-of-range"):
        # which searchmoves did the previous non-ponder `go` of this session carry?
        stale = []          # EngineControl::searchMoves is only assigned by startSearch (a non-ponder `go`)
        for s in reversed(prev_steps):
            if s["limit"] != "ponder":
                stale = s["searchmoves"]
                break
        if stale != step["searchmoves"]:
            legal = ch.legal_uci(ch.parse_fen(step["fen"]))
            inter = set(m for m in legal if m in stale)
            if not stale:
                explained = set(legal)
            elif inter:
                explained = inter
            else:
                explained = {"0000"}
            tok = None
            if what.startswith("bestmove"):
                obs = viol[1].split()
                tok = obs[1] if len(obs) > 1 else None
            if tok is None or tok in explained:
                return "EngineControl::startPonder:searchMoves-not-updated"
    return None
