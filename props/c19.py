"""C19 — book-builder graph scores stay at their defined fixed point (DESIGN.md section 6, C19).

Stages: (1) tx/c19_consts.py regenerates coq/gen/BookConsts.v (score constants, negateScore,
serialisation layout) from the current sources; (2) Coq build of Properties_C19.v; (3) harness
+ extracted model/equation checker; (4) random operation histories: after EVERY operation the
complete per-node state of the C++ book is compared with the model and checked against the
extracted defining equations; (5) finder = the equation checker on the C++ state (never the
model) + classification of each failing equation from the previous/current C++ state.  After a
reload of a complete file with no search pending the C++ state is also compared with the state
before the reload (C19_reload_reproduces).  The tree contains fix df196fb (re-queueing in
updateScores): the witness of C19_fixpoint_refuted is replayed on the implementation on every
run and a stale path error is reported as a VIOLATION (regression).
"""
import json
import os
import sys
from concurrent.futures import ThreadPoolExecutor

from vlib import cbuild, coqbuild
from vlib.common import NCPU, VERIF, sh

PROP_FILE = "Properties_C19.v"
INVALID = -32765
IGNORE = -32766

# the history of C19_fixpoint_refuted (BookTheorems.v: refute_ops), as harness script:
# root -> a -> b, search results 17 / -16 / 17, then b re-searched with 10: a's negamax score
# changes, the root's does not, and a's path error keeps the old value 1 instead of 7.
WITNESS = ["BOOK 100 200 50 7", "ADD 0 1 2 3", "ADD 1 5 1 8", "SET 0 4 17 100", "SET 1 4 -16 100",
           "SET 2 4 17 10", "SET 2 4 10 10"]
KNOWN_KEY_STALE = "updateScores:path-error-of-node-with-changed-negamax-not-requeued"
KNOWN_KEY_CYCLE = "addToBook:reversible-line-over-100-plies-makes-cycle"


# ---------------------------------------------------------------- generators
def gen_score(rng, palette):
    r = rng.random()
    if r < 0.62:
        return rng.choice(palette)
    if r < 0.78:
        return rng.randint(-400, 400)
    if r < 0.88:
        k = rng.randint(0, 40)
        return rng.choice([1, -1]) * (32000 - k)
    if r < 0.92:
        return 0
    if r < 0.955:
        return INVALID
    if r < 0.985:
        return IGNORE
    return rng.choice([32000, -32000, 32767, -32768, -32767, 16000, 16001, -16000, -16001, 15999])


def gen_history(rng, max_ops, big=False):
    """An abstract operation script for the harness (the harness resolves the random picks with
    the real move generator)."""
    r = rng.random()
    if r < 0.6:
        costs = (100, 200, 50)
    elif r < 0.8:
        costs = (rng.randint(1, 300), rng.randint(1, 300), rng.randint(1, 300))
    else:
        c = rng.randint(1, 100)
        costs = (c, c, c)
    lines = ["BOOK %d %d %d %d" % (costs + (rng.getrandbits(32),))]
    nops = rng.randint(max_ops // 3, max_ops)
    base = rng.randint(-40, 40)
    palette = [base + rng.randint(-12, 12) for _ in range(6)]
    palette += [-x for x in palette]
    w_add = rng.choice([0.25, 0.4, 0.55, 0.7])
    if big:
        w_add = 0.8
    p_line = rng.choice([0.1, 0.3, 0.6])        # probability of continuing the newest line
    for i in range(nops):
        r = rng.random()
        if r < w_add:
            x = rng.random()
            mode = 1 if x < p_line else 2 if x < p_line + 0.15 else 0
            lines.append("ADD %d %d %d %d" % (mode, rng.getrandbits(30), rng.getrandbits(30), rng.getrandbits(30)))
        elif r < w_add + (1 - w_add) * 0.70:
            lines.append("SET %d %d %d %d" % (rng.getrandbits(30), rng.getrandbits(30), gen_score(rng, palette),
                                             rng.choice([0, 1, 100, 10000, rng.getrandbits(31), 4294967295])))
        elif r < w_add + (1 - w_add) * 0.80:
            lines.append("PEND %d" % rng.getrandbits(30))
        elif r < w_add + (1 - w_add) * 0.88:
            lines.append("UNPEND %d" % rng.getrandbits(30))
        elif r < w_add + (1 - w_add) * 0.91:
            lines.append("WRITE")
        elif r < w_add + (1 - w_add) * 0.95:
            lines.append("READ %d %d" % (rng.choice([0, 0, 1, 1, 2]), rng.getrandbits(30)))
        else:
            lines.append("IMPORT %d %d %d %d" % (rng.getrandbits(30), rng.randint(1, 4), rng.randint(2, 10), rng.randint(1, 10)))
    if rng.random() < 0.08:
        lines.append("READ 3 %d" % rng.getrandbits(30))      # malformed: a record is lost (last op only)
    return lines


# ---------------------------------------------------------------- running
def run_history(cpp_exe, ml_exe, requeue, lines, timeout=600):
    """Returns dict(rc_cpp, rc_ml, results=[parsed R lines], fin=dict, raw_tail)."""
    script = "\n".join(lines) + "\nEND\n"
    rc1, out1, err1 = sh([cpp_exe], input=script, timeout=timeout)
    rc2, out2, err2 = sh([ml_exe, "1" if requeue else "0"], input=out1, timeout=timeout)
    res = []
    fin = {}
    for l in out2.split("\n"):
        t = l.split()
        if not t:
            continue
        if t[0] == "R":
            d = {"idx": int(t[1]), "op": t[2], "n": int(t[3][2:]), "model": t[4][2:], "fails": [], "flags": []}
            for x in t[6:]:
                if x.startswith("!"):
                    d["flags"].append(x[1:])
                else:
                    h, code, sig = x.split(":")
                    d["fails"].append((h, int(code), sig))
            res.append(d)
        elif t[0] == "FIN":
            for x in t[1:]:
                if "=" in x:
                    k, v = x.split("=")
                    fin[k] = int(v)
    nstates = sum(1 for l in lines if l.split()[0] != "END")
    malformed = lines[-1].startswith("READ 3")
    return {"rc_cpp": rc1, "rc_ml": rc2, "results": res, "fin": fin, "expected_states": nstates, "malformed_tail": malformed,
            "err": (err1[-500:] + err2[-500:]).strip()}


CODE_NAMES = {1: "negamax", 2: "expansionCostWhite", 3: "expansionCostBlack", 4: "pathError", 5: "depth", 6: "links",
              7: "linkCompleteness(move between two book nodes not linked)", 9: "acyclicity"}


def problems(r, tolerate_stale):
    """(model_problem, [unexplained equation failures], [known-signature failures], infrastructure)"""
    model_bad = None
    eq_bad = []
    eq_known = []
    infra = None
    if r["rc_cpp"] != 0:
        model_bad = "harness terminated abnormally (rc=%s) after %d states: %s" % (r["rc_cpp"], len(r["results"]), r["err"][-200:])
    elif r["rc_ml"] != 0:
        infra = "driver failed rc=%s %s" % (r["rc_ml"], r["err"][-300:])
    elif len(r["results"]) != r["expected_states"]:
        infra = "driver produced %d results for %d operations" % (len(r["results"]), r["expected_states"])
    for d in r["results"]:
        if d["model"] != "ok" and model_bad is None:
            model_bad = "op %d (%s): %s" % (d["idx"], d["op"], d["model"])
        if d["flags"] and model_bad is None:
            model_bad = "op %d (%s): %s" % (d["idx"], d["op"], ",".join(d["flags"]))
        for h, code, sig in d["fails"]:
            if sig == "persist":
                continue
            if sig == "uninit" and r.get("malformed_tail"):
                continue      # nodes cut off by a lost record are never initialised: equations not applicable
            if sig == "stale-own-nm" and code == 4:
                eq_known.append((d["idx"], h, code, sig))
            else:
                eq_bad.append((d["idx"], d["op"], h, code, sig))
    if r["fin"].get("acyclic", 1) != 1:
        eq_bad.append((-1, "FIN", "0", 9, "cyclic"))
    return model_bad, eq_bad, eq_known, infra


def shrink(lines, still_bad, budget=250):
    """Delta-debugging over script lines (line 0 = BOOK is kept)."""
    cur = list(lines)
    n = 2
    calls = 0
    while len(cur) > 2 and calls < budget:
        chunk = max(1, (len(cur) - 1) // n)
        removed = False
        i = 1
        while i < len(cur) and calls < budget:
            cand = cur[:i] + cur[i + chunk:]
            calls += 1
            if len(cand) >= 1 and still_bad(cand):
                cur = cand
                removed = True
            else:
                i += chunk
        if not removed:
            if chunk == 1:
                break
            n = min(len(cur) - 1, n * 2)
    return cur


def translate(ctx):
    rc, out, err = sh([sys.executable, os.path.join(VERIF, "tx", "c19_consts.py")], timeout=120)
    ctx.log("translator: " + (out.strip() or err.strip())[-200:])
    return rc == 0, (out + err)[-2000:]


def negate_laws(cpp_exe, ml_exe):
    """The algebraic specification of negateScore checked on the implementation's own table (all
    16-bit scores), and the regenerated Gallina function compared with the implementation.
    Returns (list of law violations with the concrete score, number of translator mismatches)."""
    rc, out, _ = sh([cpp_exe, "negate"], timeout=120)
    rc2, out2, _ = sh([ml_exe, "negate"], timeout=300)
    tab = {}
    for l in out.split("\n"):
        t = l.split()
        if len(t) == 2:
            tab[int(t[0])] = int(t[1])
    tab2 = {}
    for l in out2.split("\n"):
        t = l.split()
        if len(t) == 2:
            tab2[int(t[0])] = int(t[1])
    bad = []
    if len(tab) != 65536:
        return [("table incomplete", len(tab))], -1
    for s in (IGNORE, INVALID):
        if tab[s] != s:
            bad.append(("special score must not be negated", s, tab[s]))
    for s in range(-16000, 16001):
        if tab[s] != -s or tab[tab[s]] != s:
            bad.append(("ordinary score: negation is plain and an involution", s, tab[s]))
            break
    for k in range(0, 15999):
        if tab[32000 - k] != -(32000 - (k + 1)) or tab[-(32000 - k)] != 32000 - (k + 1):
            bad.append(("mate score: distance grows by one ply", 32000 - k, tab[32000 - k], tab[-(32000 - k)]))
            break
    prev = None
    for s in range(-32000, 32001):
        if prev is not None and tab[s] > prev:
            bad.append(("negation must reverse the order", s, tab[s], prev))
            break
        prev = tab[s]
    mism = sum(1 for s in tab if tab2.get(s) != tab[s])
    return bad, mism


def detect_variant(cpp_exe, ml_exe):
    """Which updateScores does the compiled tree have?  Runs the witness history of
    C19_fixpoint_refuted on the implementation and looks at the equations only."""
    r = run_history(cpp_exe, ml_exe, False, WITNESS)
    last = r["results"][-1] if r["results"] else None
    stale = bool(last) and any(code == 4 for _, code, _ in last["fails"])
    return stale, r


def run(ctx):
    ctx.rule = ("random operation histories on Book (add position under a random/newest node with a salted move "
                "preference so that lines transpose, search results incl. mate/INVALID/IGNORE/boundary scores and "
                "moves covered by children, pending marks, writeToFile, readFromFile incl. permuted/duplicated/lost "
                "records, addToBook imports of random game trees); non-trivial = history whose final graph has a "
                "node with >=2 parents; distinct by script")
    ctx.trusted_base = ["Coq 8.16.1 kernel (coqc, vm_compute)", "tx/c19_consts.py (constants, negateScore, record layout)",
                        "extraction (ExtrOcamlBasic only) + OCaml 4.13 + drivers/bookgraph_driver.ml",
                        "harness/bookgraph_harness.cpp (computes the chess links with the real move generator)",
                        "hand-written model coq/BookGraph/BookGraph.v tied by correspondence"]
    ctx.assumptions = ["model = code is established by differential testing after every operation, not by proof",
                       "hypotheses of C19_fixpoint: chess inputs of every operation come from one acyclic successor "
                       "relation with alternating side to move and are complete (true while the half-move clock of "
                       "every book position is < 100; the harness computes them with the real move generator); no "
                       "assert of the C++ code fails and no path error reaches INT_MAX (model error code, 0 in every "
                       "run); a file that is read holds exactly one record per node",
                       "C++ int arithmetic does not overflow (costs stay far below 2^31 in all runs)"]
    # (1) translate
    tx_ok, tx_log = translate(ctx)
    # (2) prove
    ok, info = coqbuild.prove(ctx, PROP_FILE, timeout=ctx.scale(900, 3600))
    proof_broken = (not ok) or (not tx_ok)
    if not ok:
        ctx.log("proof stage failed: %s" % json.dumps(info.get("errors", [])[:3])[:600])
    # (3) build
    cpp_exe = cbuild.build_harness("bookgraph_harness")
    ml_exe = coqbuild.extract("ExtractBookGraph.v", "bookgraph_driver.ml", "bookgraph_driver")
    # negateScore: laws on the implementation's table + translator self-validation
    nbad, nmism = negate_laws(cpp_exe, ml_exe)
    ctx.count("negateScore_values_checked", 65536)
    ctx.evaluated(65536)
    if nbad:
        ctx.violation("BookNode::negateScore violates its algebraic specification: %s" % (nbad[0][0],),
                      {"law_violations": nbad, "harness_mode": "negate"}, key="negateScore:%s" % (nbad[0][1],))
    elif nmism:
        ctx.violation("regenerated negateScore differs from the implementation on %d scores (translator broken)" % nmism,
                      {"harness_mode": "negate", "mismatches": nmism}, no_failing_input=True)
    # variant of updateScores in this tree (known finding re-confirmed on the implementation, or fixed)
    stale, wr = detect_variant(cpp_exe, ml_exe)
    requeue = not stale
    ctx.notes["updateScores_variant"] = "unchanged (node with changed negamax not requeued)" if stale else "fixed (requeue)"
    ctx.log("witness of C19_fixpoint_refuted on the implementation: path error %s" % ("STALE (finding present)" if stale else "correct (fix applied)"))
    if stale:
        # regression of fix df196fb (the `fixed:` entry suppresses nothing): a VIOLATION with the witness as replay
        last = wr["results"][-1]
        ctx.violation("after setSearchResult the path error of a node whose own negamax score changed (while its "
                      "parents' scores did not) keeps its old value: path-error equation violated",
                      {"script": WITNESS, "failing_equations": last["fails"], "theorem": "C19_fixpoint_refuted"},
                      key=KNOWN_KEY_STALE)
    # cyclic import (half-move clock >= 100)
    rc, out, err = sh([cpp_exe, "cyclic"], timeout=300)
    ctx.notes["cyclic_import"] = out.strip()[-200:]
    if "crashed" in out:
        ctx.violation("Book::addToBook of a game with 104 reversible plies (book hash is periodic once the half-move "
                      "clock reaches 100) creates a cycle and updateScores recurses without bound (SIGSEGV)",
                      {"harness_mode": "cyclic", "output": out.strip()}, key=KNOWN_KEY_CYCLE)
    # (4) correspond + equations after every operation
    rng = ctx.rng
    hist = []
    corpus = os.path.join(VERIF, "corpus", "c19.txt")
    if os.path.exists(corpus):
        for blk in open(corpus).read().split("\n\n"):
            ls = [l for l in blk.strip().split("\n") if l and not l.startswith("#")]
            if ls:
                hist.append(ls)
    n_small = ctx.scale(280, 4000)
    n_big = ctx.scale(10, 40)
    hist += [gen_history(rng, ctx.scale(450, 2500), big=True) for _ in range(n_big)]     # long ones first
    hist += [gen_history(rng, rng.choice([20, 60, 150, 300])) for _ in range(n_small)]
    with ThreadPoolExecutor(max_workers=NCPU) as ex:
        results = list(ex.map(lambda ls: run_history(cpp_exe, ml_exe, requeue, ls, timeout=ctx.scale(600, 3600)), hist))
    first_model = None
    first_eq = None
    infra = None
    for ls, r in zip(hist, results):
        mb, eb, ek, inf = problems(r, stale)
        ctx.evaluated(len(r["results"]))
        ctx.count("histories")
        ctx.count("states_compared_and_equation_checked", len(r["results"]))
        ctx.count("node_states_checked", sum(d["n"] for d in r["results"]))
        for d in r["results"]:
            ctx.count("op_" + d["op"])
        f = r["fin"]
        ctx.count("final_nodes_total", f.get("nodes", 0))
        ctx.count("final_nodes_with_2plus_parents", f.get("multiparent", 0))
        ctx.count("final_nodes_with_parents_at_different_depths", f.get("multidepth", 0))
        ctx.count("final_nodes_with_mate_negamax", f.get("matenodes", 0))
        ctx.count("reloads_compared_with_saved_state", f.get("reloads", 0))
        ctx.notes["max_nodes"] = max(ctx.notes.get("max_nodes", 0), f.get("nodes", 0))
        ctx.notes["max_depth"] = max(ctx.notes.get("max_depth", 0), f.get("maxdepth", 0))
        ctx.count("known_signature_path_error_failures", len(ek))
        if f.get("multiparent", 0) >= 1:
            ctx.nontrivial("\n".join(ls))
        if ek and not stale:
            eb = eb + [(i, "?", h, c, s) for i, h, c, s in ek]
        if mb and first_model is None:
            first_model = (ls, mb)
        if eb and first_eq is None:
            first_eq = (ls, eb)
        if inf and infra is None:
            infra = inf
        ctx.sample({"script_head": ls[:6], "ops": len(ls), "fin": f})
    ctx.traces_validated = ctx.evaluations
    if infra:
        raise RuntimeError(infra)
    if not proof_broken and first_model is None and first_eq is None:
        return
    # (5) find: the equation checker on the C++ state is the finder; shrink what it found
    replay = {"broken_proof": info if not ok else None, "translator": None if tx_ok else tx_log}
    if first_eq is not None:
        ls, eb = first_eq

        def bad_eq(c):
            r = run_history(cpp_exe, ml_exe, requeue, c)
            _, e2, k2, _ = problems(r, stale)
            if not stale:
                e2 = e2 + k2
            return any(x[3] == eb[0][3] for x in e2)
        small = shrink(ls, bad_eq)
        r = run_history(cpp_exe, ml_exe, requeue, small)
        _, e2, k2, _ = problems(r, stale)
        replay["failing_input"] = {"script": small, "failing_equations": [(i, op, h, CODE_NAMES.get(c, c), s) for i, op, h, c, s in (e2 or eb)][:10],
                                   "original_len": len(ls)}
        ctx.violation("C++ book state violates the defining equation for %s after an operation history" % CODE_NAMES.get(eb[0][3], eb[0][3]),
                      replay, key="eq:%s:%s" % (CODE_NAMES.get(eb[0][3], eb[0][3]), ";".join(small).replace(" ", "_")))
        return
    if first_model is not None:
        ls, mb = first_model

        def bad_model(c):
            r = run_history(cpp_exe, ml_exe, requeue, c)
            m2, _, _, _ = problems(r, stale)
            return m2 is not None
        small = shrink(ls, bad_model)
        r = run_history(cpp_exe, ml_exe, requeue, small)
        m2, e2, _, _ = problems(r, stale)
        replay["disagreement"] = {"script": small, "what": m2 or mb, "original_len": len(ls)}
        if r["rc_cpp"] != 0:
            ctx.violation("the implementation terminates abnormally (assert/crash) on an operation history", replay,
                          key="crash:" + ";".join(small).replace(" ", "_"))
        else:
            replay["broken"] = "correspondence model/implementation broken, equations hold on the C++ states explored"
            ctx.violation("correspondence model/implementation broken: %s" % (m2 or mb), replay, no_failing_input=True)
        return
    replay["broken"] = "theorem(s) in %s no longer check or translator refused" % PROP_FILE
    if nbad:
        return      # the concrete failing input of the broken negateScore lemmas was reported above
    ctx.violation(replay["broken"], replay, no_failing_input=True)


def replay(ctx, body):
    r = body.get("replay", {})
    if r.get("harness_mode") == "cyclic":
        cpp_exe = cbuild.build_harness("bookgraph_harness")
        print(sh([cpp_exe, "cyclic"], timeout=300)[1])
        return
    if r.get("harness_mode") == "negate":
        cpp_exe = cbuild.build_harness("bookgraph_harness")
        out = sh([cpp_exe, "negate"], timeout=300)[1].split("\n")
        want = set(str(x[1]) for x in r.get("law_violations", []))
        print("\n".join(l for l in out if l.split() and l.split()[0] in want))
        return
    script = r.get("script") or (r.get("failing_input") or r.get("disagreement") or {}).get("script")
    translate(ctx)
    cpp_exe = cbuild.build_harness("bookgraph_harness")
    coqbuild.make(["BookGraph/Equations.vo"], timeout=900)
    ml_exe = coqbuild.extract("ExtractBookGraph.v", "bookgraph_driver.ml", "bookgraph_driver")
    stale, _ = detect_variant(cpp_exe, ml_exe)
    res = run_history(cpp_exe, ml_exe, not stale, script)
    print("script:", script)
    for d in res["results"]:
        print("op %d %s nodes=%d model=%s failing=%s %s" % (d["idx"], d["op"], d["n"], d["model"],
              [(h, CODE_NAMES.get(c, c), s) for h, c, s in d["fails"]], d["flags"]))
    print("harness rc:", res["rc_cpp"], "fin:", res["fin"])
