"""C15 — reverse move generation is complete and consistent with forward moves (DESIGN.md section 6, C15).

Stages: regenerate tables (coq/gen/BitBoardTables.v, ZobristTables.v) -> prove (Properties_C15.v) -> build
harness/rev_harness.cpp + extracted model/spec (drivers/rev_driver.ml) -> correspond (full un-move list of
Q = fixupEP(makeMove(P, m)) from RevMoveGen::genMoves vs the extracted model, in generation order) -> finder
(the C++ list against the statement of the property itself: completeness at (P, m) and consistency of every
listed un-move, decided (a) by the real MoveGen/Position code on every pair and (b) by the extracted FIDE
Spec of Chess/Spec.v on a kind-balanced subset and on everything flagged)."""
import os
import sys
from concurrent.futures import ThreadPoolExecutor

from vlib import cbuild, coqbuild
from vlib.common import NCPU, REPO, VERIF, sh

PROP_FILE = "Properties_C15.v"
CORPUS = os.path.join(VERIF, "corpus", "c15.txt")

START = "rnbqkbnr/pppppppp/8/8/8/8/PPPPPPPP/RNBQKBNR w KQkq - 0 1"
SEED_FENS = [
    START, START, START, START,
    "r3k2r/p1ppqpb1/bn2pnp1/3PN3/1p2P3/2N2Q1p/PPPBBPPP/R3K2R w KQkq - 0 1",          # castling both sides, captures on corners near
    "r3k2r/p1ppqpb1/bn2pnp1/3PN3/1p2P3/2N2Q1p/PPPBBPPP/R3K2R b KQkq - 0 1",
    "r3k2r/8/8/8/8/8/8/R3K2R w KQkq - 0 1",                                           # rook takes rook on the corners
    "r3k2r/8/8/8/8/8/8/R3K2R b KQkq - 3 1",
    "r3k2r/1b4bq/8/8/8/8/7B/R3K2R w KQkq - 0 1",
    "r3k2r/pppppppp/8/8/8/8/PPPPPPPP/R3K2R w KQkq - 0 1",
    "r3k2r/Pppp1ppp/1b3nbN/nP6/BBP1P3/q4N2/Pp1P2PP/R2Q1RK1 w kq - 0 1",               # promotions with capture
    "rnbq1k1r/pp1Pbppp/2p5/8/2B5/8/PPP1NnPP/RNBQK2R w KQ - 1 8",
    "4k3/P6P/8/8/8/8/p6p/4K3 w - - 0 1",
    "n1n5/PPPk4/8/8/8/8/4Kppp/5N1N b - - 0 1",                                        # capture-promotions
    "r3k2r/1P4P1/8/8/8/8/1p4p1/R3K2R w KQkq - 0 1",                                   # promotion capturing a castling rook
    "r3k2r/1P4P1/8/8/8/8/1p4p1/R3K2R b KQkq - 0 1",
    "8/2p5/3p4/KP5r/1R3p1k/8/4P1P1/8 w - - 0 1",                                      # e.p. with pins along the rank
    "rnbqkb1r/ppppp1pp/7n/4Pp2/8/8/PPPP1PPP/RNBQKBNR w KQkq f6 0 3",
    "rnbqkbnr/pppp1ppp/8/8/3pP3/8/PPP2PPP/RNBQKBNR b KQkq e3 0 3",
    "4k3/pppppppp/8/PPPPPPPP/pppppppp/8/PPPPPPPP/4K3 w - - 0 1",                      # many double pushes next to enemy pawns
    "4k3/1p1p1p1p/8/P1P1P1P1/1p1p1p1p/8/P1P1P1P1/4K3 b - - 0 1",
    "r3k2r/pp1p1p1p/8/2P1P1P1/1p1p1p2/8/P1P1P1PP/R3K2R w KQkq - 0 1",
    "8/8/8/2k5/3Pp3/8/8/4K2B b - d3 0 1",                                             # e.p. capture pinned on the diagonal
    "8/8/8/8/k2Pp2R/8/8/4K3 b - - 0 1",
    "4k3/8/8/8/8/8/PPPPPPPP/RNBQKBNR w KQ - 0 1",
    "rnbqkbnr/pppppppp/8/8/8/8/8/4K3 b kq - 0 1",
    "r4rk1/1pp1qppp/p1np1n2/2b1p1B1/2B1P1b1/P1NP1N2/1PP1QPPP/R4RK1 w - - 0 10",
    "2r3k1/1q1nbppp/r3p3/3pP3/pPpP4/P1Q2N2/2RN1PPP/2R4K b - b3 0 23",
    "7k/8/8/8/8/8/8/K7 w - - 0 1",
    "8/k7/3p4/p2P1p2/P2P1P2/8/8/K7 w - - 0 1",
    "r3k2r/ppp2ppp/2n2n2/3pp3/3PP3/2N2N2/PPP2PPP/R3K2R w KQkq - 0 8",                 # both sides ready to castle
    "r3k2r/ppp2ppp/2n2n2/3pp3/3PP3/2N2N2/PPP2PPP/R3K2R b KQkq - 0 8",
    "r3k2r/pbppqppp/1pn2n2/4p3/4P3/1PN2N2/PBPPQPPP/R3K2R w KQkq - 2 9",
    "r3kb1r/pp1n1ppp/2p1pn2/q7/3P4/2N2N2/PPPBQPPP/R3K2R w KQkq - 4 10",
    "r3k2r/8/8/8/8/8/8/R3K2R w Kq - 0 1",                                             # partial rights
    "r3k2r/8/8/8/8/8/8/R3K2R b Qk - 0 1",
    "r3k2r/7b/8/8/8/8/B7/R3K2R w KQkq - 0 1",                                         # bishops aimed at the corners
    "1r2k2r/8/8/8/8/8/8/R3K1R1 w Qk - 0 1",
    "4k2r/6P1/8/8/8/8/1p6/R3K3 w Qk - 0 1",                                           # promotion with capture of the castling rook
    "4k3/8/8/1pPp4/1P1P4/8/8/4K3 w - b6 0 1",                                         # e.p. just became possible
    "8/8/8/K1pP3r/8/8/8/4k3 w - c6 0 1",                                              # e.p. illegal: pinned along the rank (fixed up by readFEN)
    "4k3/8/8/2pP4/8/8/8/3RK2b w - c6 0 1",
    "8/2p5/8/KP1P3r/8/8/8/4k3 b - - 0 1",                                             # ...c5 creates an e.p. square that the fix-up drops
    "4r1k1/8/8/8/4p3/8/3P1P2/4K3 w - - 0 1",                                          # d4/f4: e.p. capture would expose nothing / is pinned on the file
    "3r2k1/8/8/8/4p3/8/3P4/3K4 w - - 0 1",
]
# positions that are not reachable (more promoted pieces than missing pawns): completeness is not
# required there (pieceCountsValid fails for P), consistency of the lists still is
UNREACHABLE_FENS = [
    "8/PPPPPPPP/7Q/k7/7K/q7/pppppppp/8 w - - 0 1",
    "qqqq3k/8/8/8/8/8/pppp4/6K1 b - - 0 1",
    "1n6/PPPPPPPP/8/k7/7K/8/pppppppp/1N6 w - - 0 1",
]


# ---------------------------------------------------------------- helpers
def parse_r(line):
    """R line of the harness -> dict (kind, n, req, found, restored, dup, bad, why, firstbad, exp, Q, L)."""
    head, lst = line.split(" | L=", 1)
    head, q = head.split(" Q=", 1)
    d = dict(x.split("=", 1) for x in head.split()[1:])
    d["Q"] = q
    d["L"] = lst
    return d


def pair_key(incl, pair):
    return ("incl%d:" % incl) + pair.replace(" | ", "|").replace(" ", "_")


def chunks(xs, n):
    return [xs[i:i + n] for i in range(0, len(xs), n)]


def pmap(fn, jobs):
    if not jobs:
        return []
    with ThreadPoolExecutor(max_workers=NCPU) as ex:
        return list(ex.map(fn, jobs))


def run_gen(cpp, cmds):
    rc, out, err = sh([cpp, "gen"], input="\n".join(cmds) + "\n", timeout=900)
    if rc != 0:
        raise RuntimeError("rev_harness gen failed (rc=%d): %s" % (rc, err[-500:]))
    return [(l[5], l[7:]) for l in out.split("\n") if l.startswith("PAIR ")], sum(1 for l in out.split("\n") if l.startswith("REJECT"))


def run_eval(cpp, items, spec=False, timeout=1800):
    """items: list of (incl, pair).  Returns list of (rline dict | None, [U lines]) per item, and rc."""
    inp = "".join("E %d %d %s\n" % (incl, 1 if spec else 0, pair) for incl, pair in items)
    rc, out, err = sh([cpp, "eval"], input=inp, timeout=timeout)
    res = []
    cur = None
    for l in out.split("\n"):
        if l.startswith("R "):
            cur = (parse_r(l), [])
            res.append(cur)
        elif l.startswith("X "):
            cur = (None, [l])
            res.append(cur)
        elif l.startswith("U ") and cur is not None:
            cur[1].append(l)
    return res, rc, err[-800:]


def run_model(ml, items, timeout=1800):
    """items: list of (incl, rawQ) -> list of 'L=..' strings without the prefix."""
    inp = "".join("%d %s\n" % (incl, q) for incl, q in items)
    rc, out, err = sh([ml, "model"], input=inp, timeout=timeout)
    ls = [l[2:] for l in out.split("\n") if l.startswith("L=")]
    return ls, rc, err[-800:]


def run_spec(ml, lines, timeout=1800):
    rc, out, err = sh([ml, "spec"], input="\n".join(lines) + "\n", timeout=timeout)
    return [l for l in out.split("\n") if l], rc, err[-800:]


def cpp_failures(d):
    """What the real MoveGen/Position code says is wrong with the list of this pair (R line)."""
    f = []
    if d["req"] == "1" and d["found"] == "0":
        f.append("incomplete: the un-move list of Q lacks the move played with the undo information of P (%s)" % d["exp"])
    if d["req"] == "1" and d["restored"] != "1":
        f.append("unMakeMove(Q, m, undo information of P) does not restore P")
    if d["dup"] != "0" or int(d["found"]) > 1:
        f.append("the un-move list contains duplicates")
    if d["bad"] != "0":
        f.append("inconsistent: %s listed un-move(s) fail, first %s (%s)" % (d["bad"], d["firstbad"], d["why"]))
    return f


def spec_verdict(ml, incl, pair, d, ulines):
    """Spec-level decision for one pair: returns list of failure strings."""
    lines = ["C %d %s | %s | %s" % (incl, pair, d["Q"], d["L"])] + ulines
    out, rc, err = run_spec(ml, lines)
    fails = []
    if rc != 0 or len(out) != len(lines):
        return ["spec driver failed rc=%d %s" % (rc, err[-200:])]
    c = dict(x.split("=", 1) for x in out[0].split()[1:])
    if c.get("legal") != "1":
        fails.append("spec: the move taken from MoveGen's legal list is not legal by the FIDE spec")
    elif c.get("step") != "1":
        fails.append("spec: fixupEP(makeMove(P, m)) differs from the spec's successor position")
    elif c.get("ok") != "1":
        fails.append("spec: incomplete, expected un-move %s:%s missing" % (pair.split(" | ")[1], c.get("exp")))
    for ul, o in zip(ulines, out[1:]):
        if not o.startswith("U ok=1"):
            fails.append("spec: listed un-move %s is not consistent (%s)" % (ul.split(" | ")[1], o[2:]))
            break
    return fails


# piece removal shrinking of a pair on which model and implementation disagree
def shrink_pair(cpp, ml, incl, pair):
    def disagree(pr):
        res, rc, _ = run_eval(cpp, [(incl, pr)], timeout=60)
        if rc != 0 or not res or res[0][0] is None:
            return False
        d = res[0][0]
        m, rc2, _ = run_model(ml, [(incl, d["Q"])], timeout=120)
        return rc2 != 0 or not m or m[0] != d["L"]
    raw, mv = pair.split(" | ")
    board, side, cm, ep = raw.split()
    f = (ord(mv[0]) - 97) + 8 * (ord(mv[1]) - 49)
    t = (ord(mv[2]) - 97) + 8 * (ord(mv[3]) - 49)
    cur = board
    changed = True
    while changed:
        changed = False
        for i in range(64):
            if cur[i] in ".Kk" or i in (f, t):
                continue
            cand = cur[:i] + "." + cur[i + 1:]
            pr = "%s %s %s %s | %s" % (cand, side, cm, ep, mv)
            if disagree(pr):
                cur = cand
                changed = True
    return "%s %s %s %s | %s" % (cur, side, cm, ep, mv)


def regenerate_tables(ctx):
    """coq/gen/BitBoardTables.v (tx/c01_tables.py) and coq/gen/ZobristTables.v (props/c02.py) must exist
    and be current before the Coq build: the chess model this property builds on imports them."""
    sys.path.insert(0, os.path.join(VERIF, "tx"))
    import c01_tables
    from props import c02
    path, changed = c01_tables.run(REPO, os.path.join(VERIF, "coq", "gen"))
    c02.regenerate(cbuild.build_harness("pos_harness"))
    return changed


def select_balanced(rng, items, kinds_of, n):
    """Pick n items so that every kind tag is represented: round-robin over tags, rare tags first."""
    by = {}
    for idx, it in enumerate(items):
        for k in kinds_of(it):
            by.setdefault(k, []).append(idx)
    for k in by:
        rng.shuffle(by[k])
    order = sorted(by, key=lambda k: len(by[k]))
    chosen, seen = [], set()
    pos = {k: 0 for k in by}
    while len(chosen) < n:
        progressed = False
        for k in order:
            while pos[k] < len(by[k]) and by[k][pos[k]] in seen:
                pos[k] += 1
            if pos[k] < len(by[k]):
                i = by[k][pos[k]]
                seen.add(i)
                chosen.append(i)
                progressed = True
                if len(chosen) >= n:
                    break
        if not progressed:
            break
    return chosen


def run(ctx):
    ctx.rule = ("(P, m): positions P visited by random legal games (moves from the engine's own MoveGen, biased to castling, "
                "en passant, promotions, double pushes, captures) from the start position and seeded FENs (castling with "
                "rook-takes-rook on the corners, capture-promotions onto castling rooks, e.p. with pins, pawn walls), every "
                "P e.p.-fixed-up; for each P the move played, every special move available (castling, e.p., promotion, "
                "double push, move touching a corner/king with castling rights) and extra random legal moves; "
                "includeAllEpSquares drawn per pair.  Q = fixupEP(makeMove(P, m)).  Non-trivial = the move is not a quiet "
                "move in a position without castling rights and e.p. square; distinct by (P, m, incl)")
    ctx.trusted_base = ["Coq 8.16.1 kernel (coqc, vm_compute)",
                        "extraction (ExtrOcamlBasic only) + OCaml + drivers/rev_driver.ml",
                        "harness/rev_harness.cpp", "tx/c01_tables.py and props/c02.py table regeneration",
                        "hand-written model coq/RevGen/RevGen.v on top of coq/Chess/{Position,BitBoard,MoveGen,Fen}.v, tied by correspondence",
                        "coq/Chess/Spec.v + coq/RevGen/RevSpec.v as the statement of the property (FIDE rules, e.p. fix-up, undo information)"]
    ctx.assumptions = ["model = code is established by differential testing (complete un-move list with undo information in generation order), not by proof",
                       "completeness is claimed for predecessors with obtainable piece counts and a usable e.p. square (what reachable positions satisfy)",
                       "the half-move clock is not part of an un-move: RevMoveGen always reports 0 and the restored position is compared with clock 0"]
    rng = ctx.rng
    # (1) regenerate
    regenerate_tables(ctx)
    # (2) prove
    if os.path.exists(os.path.join(VERIF, "coq", PROP_FILE)):
        ok, info = coqbuild.prove(ctx, PROP_FILE, timeout=ctx.scale(1500, 3600))
    else:
        ok, info = False, {"errors": [(PROP_FILE, 0, "missing")]}
    proof_broken = not ok
    ctx.log("proof stage: %s (%d theorems)" % ("OK" if ok else "FAILED", len(ctx.obligations)))
    if proof_broken:
        ctx.log("proof stage failed: %s" % (info.get("errors") or info.get("forbidden") or info.get("illegal_axioms")))
    # (3) build
    cpp = cbuild.build_harness("rev_harness")
    ml = coqbuild.extract("ExtractRev.v", "rev_driver.ml", "rev_driver")
    ctx.log("harness and extracted model built")

    # (4a) pairs
    n_games = ctx.scale(500, 16000)
    n_pairs = ctx.scale(36000, 2000000)
    n_model = ctx.scale(5200, 120000)
    n_spec = ctx.scale(2600, 60000)
    cmds = []
    pool = SEED_FENS + UNREACHABLE_FENS
    for g in range(n_games):
        if rng.random() < 0.3:
            fen, plies = START, rng.choice([100, 140, 200])
        else:
            fen, plies = rng.choice(pool), rng.choice([16, 30, 60, 100])
        cmds.append("G %d %d %d %s" % (rng.getrandbits(40), plies, rng.choice([1, 1, 2]), fen))
    gen_res = pmap(lambda ch: run_gen(cpp, ch), chunks(cmds, max(1, len(cmds) // (NCPU * 2))))
    pairs, rejected = [], 0
    for p, r in gen_res:
        pairs += p
        rejected += r
    if rejected:
        ctx.count("seed_fens_rejected", rejected)
    seen = set()
    items = []
    corpus_items = []
    if os.path.exists(CORPUS):
        for l in open(CORPUS):
            l = l.strip()
            if l and not l.startswith("#"):
                incl, pair = l.split(" ", 1)
                corpus_items.append((int(incl), pair))
                seen.add((int(incl), pair))
    ctx.count("corpus_pairs", len(corpus_items))
    rng.shuffle(pairs)
    # rare classes first, each with a share of the budget, then ordinary moves
    for want, share in (("C", 0.12), ("E", 0.12), ("H", 0.08), ("P", 0.12), ("R", 0.15), ("D", 0.12), ("N", 1.0)):
        cap = min(n_pairs, len(items) + int(n_pairs * share))
        n0 = len(items)
        for tag, p in pairs:
            if tag != want:
                continue
            if len(items) >= cap:
                break
            incl = 1 if rng.random() < 0.5 else 0
            if (incl, p) in seen:
                continue
            seen.add((incl, p))
            items.append((incl, p))
        ctx.count("pairs_class_" + want, len(items) - n0)
    items = corpus_items + items
    ctx.log("pairs: %d distinct (of %d generated by %d games)" % (len(items), len(pairs), n_games))

    # (4b)/(5a) the real code on every pair: list + decision by the real MoveGen/Position code
    ev = pmap(lambda ch: run_eval(cpp, ch), chunks(items, 600))
    results = []          # (incl, pair, d)
    crashed = []
    for ch, (res, rc, err) in zip(chunks(items, 600), ev):
        if rc != 0 or len(res) != len(ch):
            crashed.append((ch, rc, err))
            continue
        for (incl, pair), (d, xl) in zip(ch, res):
            if d is None:
                ctx.count("pairs_rejected_by_harness")
                continue
            results.append((incl, pair, d))
    flagged = []          # (incl, pair, d, [failures])
    for incl, pair, d in results:
        ctx.evaluated()
        kinds = d["kind"].split("+")
        for k in kinds:
            ctx.count("kind_" + k)
        ctx.count("incl_%d" % incl)
        ctx.count("unmoves_listed", int(d["n"]))
        ctx.count("completeness_required" if d["req"] == "1" else "completeness_not_required_(counts/ep/incl)")
        if not (kinds[1] == "quiet" and "P_has_rights" not in kinds and "P_has_ep" not in kinds):
            ctx.nontrivial(pair_key(incl, pair))
        f = cpp_failures(d)
        if f:
            flagged.append((incl, pair, d, f))
    ctx.log("real code on %d pairs: %d flagged, %d crashed chunks" % (len(results), len(flagged), len(crashed)))

    # (4c) correspondence with the extracted model on a kind-balanced subset
    sel = select_balanced(rng, results, lambda it: it[2]["kind"].split("+") + ["incl%d" % it[0]], n_model - len(corpus_items))
    sel = list(range(len(corpus_items))) + [i for i in sel if i >= len(corpus_items)] if corpus_items else sel
    model_items = [results[i] for i in sel]
    mres = pmap(lambda ch: run_model(ml, [(incl, d["Q"]) for incl, pair, d in ch]), chunks(model_items, 100))
    disagreements = []    # (incl, pair, cpp list, model list, note)
    for ch, (ls, rc, err) in zip(chunks(model_items, 100), mres):
        if rc != 0 or len(ls) != len(ch):
            disagreements.append((ch[0][0], ch[0][1], "", "", "model driver failed rc=%d %s" % (rc, err[-300:])))
            continue
        for (incl, pair, d), l in zip(ch, ls):
            ctx.count("model_compared")
            ctx.count("model_unmoves_compared", int(d["n"]))
            for k in d["kind"].split("+"):
                ctx.count("model_kind_" + k)
            if l != d["L"]:
                disagreements.append((incl, pair, d["L"], l, ""))
            elif len(ctx.samples) < 5 and d["kind"].split("+")[1] != "quiet":
                ctx.sample({"P | m": pair, "incl": incl, "kind": d["kind"], "Q": d["Q"], "n": int(d["n"]),
                            "cpp = model (first 6)": d["L"].split(",")[:6]})
    ctx.traces_validated = ctx.counts.get("model_compared", 0)
    ctx.log("model compared on %d pairs: %d disagreements" % (len(model_items), len(disagreements)))

    # (5b) the C++ lists against the extracted Spec: subset + everything flagged / disagreeing
    spec_sel = select_balanced(rng, results, lambda it: it[2]["kind"].split("+") + ["incl%d" % it[0]], n_spec)
    spec_items = [results[i] for i in spec_sel]
    extra = [(i, p, d) for i, p, d, f in flagged[:200]] + [r for r in results if (r[0], r[1]) in {(a, b) for a, b, _, _, _ in disagreements[:50]}]
    spec_items = extra + spec_items

    def spec_job(ch):
        res, rc, err = run_eval(cpp, [(incl, pair) for incl, pair, d in ch], spec=True)
        out = []
        if rc != 0 or len(res) != len(ch):
            return [(incl, pair, d, ["harness failed in spec mode rc=%d" % rc]) for incl, pair, d in ch]
        lines, spans = [], []
        for (incl, pair, d0), (d, ul) in zip(ch, res):
            start = len(lines)
            lines.append("C %d %s | %s | %s" % (incl, pair, d["Q"], d["L"]))
            lines += ul
            spans.append((start, len(lines)))
        so, rc2, err2 = run_spec(ml, lines)
        if rc2 != 0 or len(so) != len(lines):
            return [(incl, pair, d, ["spec driver failed rc=%d %s" % (rc2, err2[-200:])]) for incl, pair, d in ch]
        for (incl, pair, d0), (d, ul), (a, b) in zip(ch, res, spans):
            c = dict(x.split("=", 1) for x in so[a].split()[1:])
            fails = []
            if c.get("legal") != "1":
                fails.append("spec: the move taken from MoveGen's legal list is not legal by the FIDE spec")
            elif c.get("step") != "1":
                fails.append("spec: fixupEP(makeMove(P, m)) differs from the spec's successor position")
            elif c.get("ok") != "1":
                fails.append("spec: incomplete, expected un-move %s:%s missing" % (pair.split(" | ")[1], c.get("exp")))
            nbad = 0
            for ul1, o in zip(ul, so[a + 1:b]):
                if not o.startswith("U ok=1"):
                    if nbad == 0:
                        fails.append("spec: listed un-move %s is not consistent (%s)" % (ul1.split(" | ")[1], o[2:]))
                    nbad += 1
            out.append((incl, pair, d, fails, c.get("req"), c.get("dom"), len(ul), c))
        return out
    sres = pmap(spec_job, chunks(spec_items, 40))
    spec_flagged = []
    for group in sres:
        for t in group:
            if len(t) == 4:
                spec_flagged.append(t)
                continue
            incl, pair, d, fails, req, dom, nu, c_extra = t
            ctx.count("spec_pairs_checked")
            ctx.count("spec_unmoves_checked_consistent", nu)
            if req == "1":
                ctx.count("spec_completeness_required")
            if dom != "1":
                ctx.count("spec_P_outside_domain_(counts)")
            if req != d["req"]:
                ctx.count("spec_and_harness_disagree_on_required")
            # hypotheses of C15_complete_given_raw / C15_complete_partial, evaluated by the extracted tests
            if c_extra.get("mf") == "1":
                ctx.count("premise_MoveFacts_holds")
            if c_extra.get("wfr") == "1":
                ctx.count("premise_WFrev_executable_part_holds")
            if c_extra.get("raw") == "1":
                ctx.count("premise_move_in_model_raw_list_of_Q")
            if req == "1" and "1" != c_extra.get("mf"):
                fails.append("premise: MoveFacts (hypothesis of the completeness theorems) is false for a legal move")
            if req == "1" and "1" != c_extra.get("wfr"):
                fails.append("premise: WFrev (domain of the completeness theorems) is false for a position of the domain")
            if fails:
                spec_flagged.append((incl, pair, d, fails))
    ctx.log("spec checked %d pairs: %d flagged" % (ctx.counts.get("spec_pairs_checked", 0), len(spec_flagged)))
    ctx.notes["distribution"] = {"games": n_games, "pairs": len(results), "model_pairs": len(model_items), "spec_pairs": len(spec_items)}
    ctx.notes["theorem_status"] = {
        "C15_complete": "proved for every legal move (FIDE spec): queen, rook, bishop, knight, king, castling, pawn pushes/double pushes/captures/promotions/e.p. captures",
        "C15_consistent": "proved for every reported un-move of every class, Q in the domain WFrev (invariant, well-formed, piece counts, e.p. square stable, origin square of the e.p. double step empty): the move is legal in the restored position by the FIDE spec and make+fix-up leads back to Q; C15_consistent_invariant: the restored position satisfies the representation invariant",
        "C15_nodup": "proved for every well-formed position (WF): genMoves has no duplicates; C15_nodup_raw for the raw reverse move list",
        "per_class": ["C15_consistent_nonpawn (queen/rook/bishop/knight/king)", "C15_consistent_pawn (pawn un-moves incl. e.p. and un-promotions)",
                      "C15_consistent_castling", "C15_consistent_pieces", "C15_consistent_knight_king", "C15_consistent_partial (what knownInvalid guarantees)"],
        "supporting": ["C15_restore", "C15_restored_not_rejected", "C15_undo_alternatives", "C15_complete_given_raw", "C15_complete_castling",
                       "C15_complete_pawn", "C15_pawn_move_forms", "C15_makeMove_fields", "C15_clock_zero", "C15_premises_decidable", "C15_raw_piece_shape"],
        "statements_only": []}

    if not (proof_broken or disagreements or flagged or spec_flagged or crashed):
        return

    # ---- report
    replay = {"broken_proof": info if proof_broken else None, "disagreement": None}
    if disagreements:
        incl, pair, a, b, note = disagreements[0]
        small = pair
        try:
            if not note:
                small = shrink_pair(cpp, ml, incl, pair)
        except Exception as ex:          # shrinking is best effort
            note += " shrink failed: %s" % ex
        la, lb = a.split(","), b.split(",")
        only_cpp = [x for x in la if x not in set(lb)][:12]
        only_model = [x for x in lb if x not in set(la)][:12]
        replay["disagreement"] = {"incl": incl, "pair": small, "original_pair": pair, "only_in_cpp_list": only_cpp,
                                  "only_in_model_list": only_model, "same_set_different_order": not only_cpp and not only_model,
                                  "note": note, "count": len(disagreements)}
        try:
            with open(CORPUS, "a") as f:
                f.write("# seed %d\n%d %s\n" % (ctx.seed, incl, small))
        except OSError:
            pass
        # finder aimed at the disagreement: every legal move of the shrunk P, both incl values, against the Spec
        if not flagged and not spec_flagged:
            raw = small.split(" | ")[0]
            rc, out, err = sh([cpp, "gen"], input="G 1 1 400 %s\n" % raw_to_fen(raw), timeout=120)
            near = [l[7:] for l in out.split("\n") if l.startswith("PAIR ")]
            near_items = [(i, p) for p in dict.fromkeys([small, pair] + near) for i in (0, 1)]
            res, rc, err = run_eval(cpp, near_items, spec=True)
            for (incl2, pr), (d, ul) in zip(near_items, res):
                if d is None:
                    continue
                f = cpp_failures(d) + spec_verdict(ml, incl2, pr, d, ul)
                ctx.count("finder_neighbourhood_pairs")
                if f:
                    spec_flagged.append((incl2, pr, d, f))
    if crashed:
        ch, rc, err = crashed[0]
        # locate the pair
        for incl, pair in ch:
            res, rc1, err1 = run_eval(cpp, [(incl, pair)], timeout=60)
            if rc1 != 0:
                replay["failing_input"] = {"incl": incl, "pair": pair, "observed": "harness exit %d: %s" % (rc1, err1[-400:])}
                ctx.violation("the real RevMoveGen code aborts on a pair", replay, key=pair_key(incl, pair))
                return
    bad = flagged + spec_flagged
    if bad:
        bad.sort(key=lambda t: int(t[2]["n"]))
        incl, pair, d, fails = bad[0]
        ul = []
        res, rc, err = run_eval(cpp, [(incl, pair)], spec=True, timeout=120)
        sv = []
        if rc == 0 and res and res[0][0] is not None:
            sv = spec_verdict(ml, incl, pair, res[0][0], res[0][1])
        replay["failing_input"] = {"incl": incl, "pair (rawP | move)": pair, "kind": d["kind"], "Q": d["Q"],
                                   "expected_undo_info(captured:castleMask:epSquare)": d["exp"],
                                   "real_code_verdict": cpp_failures(d), "spec_verdict": sv,
                                   "listed_unmoves": d["L"].split(",")[:400], "count_flagged": len(bad),
                                   "other_flagged": [{"incl": i, "pair": p, "why": f[:2]} for i, p, _, f in bad[1:8]]}
        ctx.violation("reverse move generation: " + "; ".join((fails + sv)[:2]), replay, key=pair_key(incl, pair))
        return
    what = ("theorem(s) in %s no longer check" % PROP_FILE) if proof_broken else "correspondence model/implementation broken"
    replay["broken"] = what
    ctx.violation(what, replay, no_failing_input=True)


def raw_to_fen(raw):
    b, side, cm, ep = raw.split()
    rows = []
    for r in range(7, -1, -1):
        row, e = "", 0
        for c in range(8):
            ch = b[r * 8 + c]
            if ch == ".":
                e += 1
            else:
                if e:
                    row += str(e)
                    e = 0
                row += ch
        if e:
            row += str(e)
        rows.append(row)
    cm = int(cm)
    cs = ("K" if cm & 2 else "") + ("Q" if cm & 1 else "") + ("k" if cm & 8 else "") + ("q" if cm & 4 else "")
    ep = int(ep)
    eps = "-" if ep < 0 else "abcdefgh"[ep & 7] + "12345678"[ep >> 3]
    return "%s %s %s %s 0 1" % ("/".join(rows), side, cs or "-", eps)


def replay(ctx, body):
    r = body.get("replay", {})
    fi = r.get("failing_input") or {}
    dis = r.get("disagreement") or {}
    pair = fi.get("pair (rawP | move)") or fi.get("pair") or dis.get("pair")
    incl = fi.get("incl", dis.get("incl", 1))
    if not pair:
        print("no concrete pair in this replay file:", r.get("broken"))
        return
    cpp = cbuild.build_harness("rev_harness")
    ml = coqbuild.extract("ExtractRev.v", "rev_driver.ml", "rev_driver")
    res, rc, err = run_eval(cpp, [(incl, pair)], spec=True)
    print("pair:", pair, "incl:", incl, "FEN of P:", raw_to_fen(pair.split(" | ")[0]))
    if rc != 0 or not res or res[0][0] is None:
        print("harness:", rc, res, err)
        return
    d, ul = res[0]
    print("kind:", d["kind"], "| Q:", raw_to_fen(d["Q"]))
    print("expected undo info:", d["exp"], "| listed:", d["n"], "| found:", d["found"], "| restored:", d["restored"],
          "| dup:", d["dup"], "| inconsistent:", d["bad"], d["why"], d["firstbad"])
    print("real code verdict:", cpp_failures(d) or "ok")
    print("spec verdict:", spec_verdict(ml, incl, pair, d, ul) or "ok")
    m, rc2, _ = run_model(ml, [(incl, d["Q"])])
    print("model list equals C++ list:", bool(m) and m[0] == d["L"])
    print("C++ list:", d["L"])
