"""C17 — move, position and game text formats round-trip and reject garbage safely (DESIGN.md section 6, C17)."""
import os
import re
import subprocess
import time
from concurrent.futures import ThreadPoolExecutor

from vlib import cbuild, coqbuild
from vlib.common import NCPU, REPO, VERIF, sh
from props import c02

PROP_FILE = "Properties_C17.v"
CORPUS = os.path.join(VERIF, "corpus", "c17.txt")
HARNESS_SRCS = ["app/texel/enginecontrol.cpp", "app/texel/uciprotocol.cpp"]
# thorough tier: the text code itself is recompiled with the sanitizers and libstdc++ assertions
SAN_SRCS = HARNESS_SRCS + ["lib/texellib/textio.cpp", "lib/texelutillib/gametree.cpp", "lib/texellib/util/util.cpp"]
SAN_FLAGS = ("-fsanitize=address,undefined", "-fno-sanitize-recover=all", "-D_GLIBCXX_ASSERTIONS")

START = c02.START
PIECES = ".KQRBNPkqrbnp"

# finding F1 (C17): TextIO::readFEN accepts any number of pieces, MoveList holds 256 moves and MoveList::addMove has
# no bound: a FEN with more than 256 pseudo-legal moves overflows the list on the stack (263 moves here)
F1_FEN = "QQQQQQnk/Q4Qpp/Q5QQ/Q6Q/Q6Q/Q6Q/Q6Q/KQQQQQQQ w - - 0 1"
F1_KEY = "F1-movelist-overflow-fen-with-more-than-256-pseudo-legal-moves"
MOVELIST_CAPACITY = 256
# finding F2 (C17): readFEN takes any int as half-move clock; Position::historyHash / bookHash index
# moveCntKeys[std::min(halfMoveClock, 100)] without a lower bound (and makeMove increments INT_MAX: signed overflow)
F2_FEN = "8/8/1k6/8/8/8/2R3K1/8 w - - -100000 27"
F2_KEY = "F2-negative-halfmove-clock-from-fen-indexes-moveCntKeys-out-of-range"


def fen_clock_out_of_range(fenhex):
    """half-move clock field of a FEN as std::stoi reads it: negative, or so large that ++ overflows"""
    try:
        f = unhx(fenhex).decode("latin-1").split()
        m = re.match(r"[+-]?\d+", f[4]) if len(f) > 4 else None
        if not m:
            return False
        v = int(m.group(0))
        return -2**31 <= v < 0 or 2**31 - 1000 <= v <= 2**31 - 1
    except Exception:
        return False


def hx(b):
    if isinstance(b, str):
        b = b.encode("latin-1")
    return b.hex() if b else "-"


def unhx(h):
    return b"" if h == "-" else bytes.fromhex(h)


# ---------------------------------------------------------------- synthetic positions
def sqname(s):
    return "abcdefgh"[s & 7] + "12345678"[s >> 3]


def board_fen(board, side, castle="-", ep="-", hmc=0, fmc=1):
    rows = []
    for r in range(7, -1, -1):
        row, e = "", 0
        for c in range(8):
            pc = board.get(r * 8 + c)
            if pc is None:
                e += 1
            else:
                if e:
                    row += str(e)
                    e = 0
                row += pc
        if e:
            row += str(e)
        rows.append(row)
    return "%s %s %s %s %d %d" % ("/".join(rows), side, castle, ep, hmc, fmc)


KN = [(1, 2), (2, 1), (2, -1), (1, -2), (-1, -2), (-2, -1), (-2, 1), (-1, 2)]


def attackers_of(kind, t):
    """squares from which a piece of `kind` attacks t on an empty board"""
    tx, ty = t & 7, t >> 3
    out = []
    for s in range(64):
        if s == t:
            continue
        x, y = s & 7, s >> 3
        dx, dy = abs(x - tx), abs(y - ty)
        if kind == "N":
            ok = (dx, dy) in ((1, 2), (2, 1))
        elif kind == "R":
            ok = dx == 0 or dy == 0
        elif kind == "B":
            ok = dx == dy
        else:
            ok = dx == 0 or dy == 0 or dx == dy
        if ok:
            out.append(s)
    return out


def place_kings(rng, board, side):
    free = [s for s in range(64) if s not in board]
    rng.shuffle(free)
    wk = free.pop()
    # the enemy king not adjacent
    for s in free:
        if max(abs((s & 7) - (wk & 7)), abs((s >> 3) - (wk >> 3))) > 1:
            bk = s
            break
    else:
        bk = free[0]
    board[wk] = "K"
    board[bk] = "k"


def add_noise(rng, board, n):
    for _ in range(n):
        s = rng.randrange(64)
        if s in board:
            continue
        pc = rng.choice("QRBNPqrbnpPp")
        if pc in "Pp" and (s >> 3) in (0, 7):
            continue
        board[s] = pc


def synth_multi(rng):
    """several like pieces attacking one square: file, rank or both needed to tell them apart"""
    side = rng.choice("wb")
    kind = rng.choice("QQQNNNRRB")
    t = rng.randrange(64)
    att = attackers_of(kind, t)
    a = rng.choice(att)
    srcs = [a]
    same_file = [s for s in att if (s & 7) == (a & 7) and s != a]
    same_rank = [s for s in att if (s >> 3) == (a >> 3) and s != a]
    r = rng.random()
    if r < 0.45 and same_file and same_rank:
        srcs += [rng.choice(same_file), rng.choice(same_rank)]
    elif r < 0.6 and same_file:
        srcs.append(rng.choice(same_file))
    elif r < 0.75 and same_rank:
        srcs.append(rng.choice(same_rank))
    k = rng.choice([0, 0, 1, 2])
    for _ in range(k):
        srcs.append(rng.choice(att))
    board = {}
    pc = kind if side == "w" else kind.lower()
    for s in set(srcs):
        board[s] = pc
    if rng.random() < 0.5:
        cap = rng.choice("qrbnp" if side == "w" else "QRBNP")
        if not (cap in "pP" and (t >> 3) in (0, 7)):
            board[t] = cap
    place_kings(rng, board, side)
    add_noise(rng, board, rng.choice([0, 0, 1, 2, 4, 7]))
    return board_fen(board, side, hmc=rng.choice([0, 0, 3, 57]), fmc=rng.choice([1, 1, 20, 131]))


def synth_promo(rng):
    """pawns on the seventh rank: pushes and captures with promotion, often with check or mate"""
    side = rng.choice("wb")
    r7, r8 = (6, 7) if side == "w" else (1, 0)
    own, opp = ("P", "qrbn") if side == "w" else ("p", "QRBN")
    board = {}
    files = rng.sample(range(8), rng.choice([1, 2, 2, 3, 4]))
    for f in files:
        board[r7 * 8 + f] = own
    for f in range(8):
        if rng.random() < 0.4 and (r8 * 8 + f) not in board:
            board[r8 * 8 + f] = rng.choice(opp)
    # enemy king on the last or the next-to-last rank (promotion with check), own king far away
    free = [s for s in range(64) if s not in board]
    ek = rng.choice([s for s in free if (s >> 3) in ((7, 6) if side == "w" else (0, 1))] or free)
    board[ek] = "k" if side == "w" else "K"
    free = [s for s in range(64) if s not in board and max(abs((s & 7) - (ek & 7)), abs((s >> 3) - (ek >> 3))) > 1]
    ok = rng.choice([s for s in free if (s >> 3) in ((0, 1, 2) if side == "w" else (5, 6, 7))] or free)
    board[ok] = "K" if side == "w" else "k"
    if rng.random() < 0.5:
        for _ in range(rng.choice([1, 2, 3])):
            s = rng.randrange(64)
            if s not in board:
                board[s] = "Q" if side == "w" else "q"
    add_noise(rng, board, rng.choice([0, 0, 1, 3]))
    return board_fen(board, side)


def synth_castle(rng):
    board = {4: "K", 60: "k"}
    rights = ""
    for sq, pc, fl in ((7, "R", "K"), (0, "R", "Q"), (63, "r", "k"), (56, "r", "q")):
        if rng.random() < 0.8:
            board[sq] = pc
            if rng.random() < 0.85:
                rights += fl
    add_noise(rng, board, rng.choice([0, 1, 2, 4, 8]))
    if rng.random() < 0.5:      # keep the squares between king and rook mostly free
        for s in (1, 2, 3, 5, 6, 57, 58, 59, 61, 62):
            board.pop(s, None)
    if rng.random() < 0.2:
        rights = rng.choice(["KQkq", "K", "q", "-", "kq", "KQ"])
    return board_fen(board, rng.choice("wb"), castle=rights or "-")


def synth_ep(rng):
    side = rng.choice("wb")
    r5, r6 = (4, 5) if side == "w" else (3, 2)
    if rng.random() < 0.25:
        # the same pawn structure on a WRONG rank: the reader must drop the en-passant square
        r5 = rng.choice([2, 3, 4, 5])
        r6 = r5 + 1 if side == "w" else r5 - 1
    own, opp = ("P", "p") if side == "w" else ("p", "P")
    f = rng.randrange(8)
    board = {r5 * 8 + f: opp}
    caps = [g for g in (f - 1, f + 1) if 0 <= g < 8]
    rng.shuffle(caps)
    for g in caps[:rng.choice([1, 1, 2])]:
        board[r5 * 8 + g] = own
    if rng.random() < 0.3:
        # the rank-5 pin: own king and an enemy rook on the fifth rank
        ks = [x for x in range(8) if (r5 * 8 + x) not in board]
        if len(ks) >= 2:
            a, b = rng.sample(ks, 2)
            board[r5 * 8 + a] = "K" if side == "w" else "k"
            board[r5 * 8 + b] = "r" if side == "w" else "R"
    if not any(v == ("K" if side == "w" else "k") for v in board.values()):
        place_kings(rng, board, side)
    else:
        free = [s for s in range(64) if s not in board]
        board[rng.choice(free)] = "k" if side == "w" else "K"
    add_noise(rng, board, rng.choice([0, 1, 3]))
    ep = sqname(r6 * 8 + f)
    if rng.random() < 0.1:
        ep = sqname(rng.randrange(64))
    return board_fen(board, side, ep=ep)


def gen_synthetic(rng):
    r = rng.random()
    if r < 0.55:
        return synth_multi(rng)
    if r < 0.75:
        return synth_promo(rng)
    if r < 0.87:
        return synth_castle(rng)
    return synth_ep(rng)


# ---------------------------------------------------------------- malformed streams
ALPH = b"abcdefgh12345678KQRBNPkqrbnpxX-=+#O0o !?.()e1e8"


def rand_bytes(rng, n, alphabet=None):
    if alphabet:
        return bytes(rng.choice(alphabet) for _ in range(n))
    return bytes(rng.randrange(256) for _ in range(n))


def mutate_bytes(rng, b, alphabet=ALPH):
    b = bytearray(b)
    for _ in range(rng.choice([1, 1, 1, 2, 3])):
        k = rng.randrange(9)
        if k == 0 and b:
            b[rng.randrange(len(b))] = rng.choice(alphabet)
        elif k == 1 and b:
            del b[rng.randrange(len(b))]
        elif k == 2:
            b.insert(rng.randrange(len(b) + 1), rng.choice(alphabet))
        elif k == 3 and b:
            b[rng.randrange(len(b))] = rng.randrange(256)
        elif k == 4 and b:
            i = rng.randrange(len(b))
            b[i] = b[i] ^ 0x20
        elif k == 5:
            b = b[:rng.randrange(len(b) + 1)]
        elif k == 6 and b:
            i = rng.randrange(len(b))
            b[i:i] = b[i:i + rng.randrange(1, 4)]
        elif k == 7 and len(b) >= 2:
            i = rng.randrange(len(b) - 1)
            b[i], b[i + 1] = b[i + 1], b[i]
        elif k == 8:
            b = b + bytearray(rng.choice([b"+", b"#", b"=Q", b"Q", b"x", b"e.p.", b"!", b"?!", b"--", b" "]))
    return bytes(b)


SAN_EXTRA = [b"O-O", b"O-O-O", b"0-0", b"0-0-0", b"o-o", b"o-o-o", b"--", b"", b"e4", b"Nf3", b"exd5", b"e8=Q", b"e8Q+",
             b"Nbd2", b"N1d2", b"Nb1d2", b"Qa1xc3", b"Bxc6", b"bxc6", b"bxa8=B", b"Kg1", b"Pe4", b"pe4", b"e2e4", b"e7e8q",
             b"x", b"-", b"=", b"+", b"#", b"K", b"Q", b"8", b"a", b"ab", b"a1", b"xa1", b"Qx", b"Nx", b"Rx8", b"Ra", b"R1"]


def gen_move_strings(rng, items, n):
    """strings for stringToMove on one position: real move texts of the position, mutated; a few long random ones"""
    base = []
    for it in items:
        base += [it[0].encode(), it[1].encode(), it[2].encode()]
    out = []
    for _ in range(n):
        r = rng.random()
        if r < 0.45 and base:
            out.append(mutate_bytes(rng, rng.choice(base)))
        elif r < 0.60:
            out.append(mutate_bytes(rng, rng.choice(SAN_EXTRA)) if rng.random() < 0.5 else rng.choice(SAN_EXTRA))
        elif r < 0.70 and base:
            # under-specified forms: drop the piece letter / disambiguation / capture mark
            s = rng.choice(base).replace(b"x", b"").replace(b"-", b"") if rng.random() < 0.5 else rng.choice(base)[1:]
            out.append(s)
        elif r < 0.80 and base:
            out.append(rng.choice(base) + rng.choice(base))
        elif r < 0.93:
            out.append(rand_bytes(rng, rng.randrange(0, 9), ALPH))
        elif r < 0.97:
            out.append(rand_bytes(rng, rng.randrange(0, 40)))
        else:
            out.append(rand_bytes(rng, rng.choice([100, 1000, 4096]), ALPH if rng.random() < 0.7 else None))
    return out


def gen_uci_move_strings(rng, n):
    out = []
    for _ in range(n):
        r = rng.random()
        f, t = rng.randrange(64), rng.randrange(64)
        s = (sqname(f) + sqname(t)).encode()
        if r < 0.35:
            s += rng.choice([b"", b"q", b"r", b"b", b"n", b" ", b"k", b"Q", b"p"])
        elif r < 0.75:
            s = mutate_bytes(rng, s + rng.choice([b"", b"q", b"n"]), b"abcdefghi`12345678909qrbnk QRBN\x00\xff")
        elif r < 0.95:
            s = rand_bytes(rng, rng.randrange(0, 8), b"abcdefgh12345678qrbn i9`0")
        else:
            s = rand_bytes(rng, rng.choice([6, 50, 4096]))
        out.append(s)
    return out


def gen_fen_strings(rng, fens, n):
    out = []
    for _ in range(n):
        r = rng.random()
        f = rng.choice(fens)
        if r < 0.55:
            out.append(c02.mutate_fen(rng, f))
        elif r < 0.70:
            out.append(mutate_bytes(rng, f.encode("latin-1"), b"/12345678PNBRQKpnbrqk wb-KQkq abcdefgh09+\t\x00\xff"))
        elif r < 0.80:
            out.append(f.encode("latin-1"))
        elif r < 0.93:
            out.append(rand_bytes(rng, rng.randrange(0, 90), b"/12345678PNBRQKpnbrqk wb-KQkq abcdefgh09"))
        elif r < 0.97:
            out.append(rand_bytes(rng, rng.randrange(0, 200)))
        else:
            out.append(rand_bytes(rng, 4096, b"/12345678PNBRQKpnbrqk wb- " if rng.random() < 0.7 else None))
    return out


UCI_WORDS = [b"position", b"startpos", b"fen", b"moves", b"uci", b"ucinewgame", b"stop", b"ponderhit", b"quit", b"xyz",
             b"e2e4", b"e7e5", b"g1f3", b"a7a8q", b"0000", b"\t", b"  ", b"\r"]


def gen_uci_session(rng, fens, items_by_fen):
    """command lines for the harness (no engine object needed): mostly `position` lines with valid or broken FEN / moves"""
    lines = []
    for _ in range(rng.choice([1, 2, 3, 5, 8])):
        r = rng.random()
        if r < 0.75:
            if rng.random() < 0.5:
                head = b"position startpos"
            else:
                f = rng.choice(fens)
                fb = f.encode("latin-1") if rng.random() < 0.6 else c02.mutate_fen(rng, f)
                head = b"position fen " + fb.replace(b"\n", b" ")
            mv = []
            for _ in range(rng.choice([0, 1, 2, 5, 12])):
                mv.append(gen_uci_move_strings(rng, 1)[0] if rng.random() < 0.25 else
                          (sqname(rng.randrange(64)) + sqname(rng.randrange(64))).encode() + rng.choice([b"", b"", b"", b"q", b"n"]))
            line = head + (rng.choice([b" moves ", b"  moves\t", b" moves", b" move ", b" "]) + b" ".join(mv) if mv or rng.random() < 0.3 else b"")
            if rng.random() < 0.15:
                line = mutate_bytes(rng, line, b" \tpositnfemvsar/12345678KQkq-wb")
            if rng.random() < 0.1:
                line = rng.choice([b" ", b"\t ", b"\r"]) + line + rng.choice([b" ", b"\t", b"\r", b" \r"])
        elif r < 0.9:
            line = b" ".join(rng.choice(UCI_WORDS) for _ in range(rng.randrange(0, 6)))
        elif r < 0.97:
            line = rand_bytes(rng, rng.randrange(0, 60))
        else:
            line = rand_bytes(rng, 4096, b" \tpositionfenmoves/12345678KQkq-wbstartpos" if rng.random() < 0.7 else None)
        lines.append(line.replace(b"\n", b" "))
    return lines


def gen_engine_script(rng, fens):
    """lines for the real engine binary: go / setoption / isready with broken arguments (small volume)"""
    lines = [b"uci"]
    for _ in range(rng.choice([3, 6, 10])):
        r = rng.random()
        if r < 0.3:
            f = rng.choice(fens)
            if rng.random() < 0.35:
                # a valid placement with boundary values in the two counters (they reach the search as ints)
                w = f.split(" ")
                if len(w) >= 6:
                    w[4] = rng.choice(["-1", "-7", "-100000", "-2147483648", "99", "100", "101", "5000", "2147483647", "2147483646"])
                    w[5] = rng.choice(["0", "-3", "1", "65536", "2147483647", "-2147483648"])
                    f = " ".join(w)
                fb = f.encode("latin-1")
            else:
                fb = f.encode("latin-1") if rng.random() < 0.6 else c02.mutate_fen(rng, f)
            lines.append(fb.replace(b"\n", b" ").join([b"position fen ", b""])
                         + (b" moves " + b" ".join(gen_uci_move_strings(rng, 3)) if rng.random() < 0.4 else b""))
            if rng.random() < 0.7:
                lines.append(rng.choice([b"go depth 1", b"go depth 2", b"go nodes 200"]))
        elif r < 0.65:
            parts = [b"go"]
            for _ in range(rng.randrange(0, 5)):
                parts.append(rng.choice([b"depth", b"nodes", b"movetime", b"wtime", b"btime", b"winc", b"binc", b"movestogo", b"mate",
                                         b"searchmoves", b"ponder", b"xyz"]))
                if rng.random() < 0.8:
                    parts.append(rng.choice([b"1", b"2", b"0", b"-1", b"x", b"", b"99999999999999999999", b"1e3", b"e2e4", b"+3", b"\xff\xfe"]))
            if not any(p in (b"depth", b"nodes", b"movetime") for p in parts):
                parts += [b"depth", b"1"]
            lines.append(b" ".join(parts))
        elif r < 0.85:
            name = rng.choice([b"Ponder", b"UCI_AnalyseMode", b"OwnBook", b"Strength", b"MultiPV", b"Contempt", b"Clear", b"", b"xyz", b"name", b"value"])
            val = rng.choice([b"true", b"false", b"1", b"0", b"-5", b"x", b"", b"value", b"99999999999", b"\xff"])
            form = rng.randrange(4)
            lines.append([b"setoption name " + name + b" value " + val, b"setoption name " + name, b"setoption " + name + b" " + val,
                          b"setoption name value " + val][form])
        elif r < 0.95:
            lines.append(rng.choice([b"isready", b"stop", b"ponderhit", b"ucinewgame", b"isready x y"]))
        else:
            lines.append(rand_bytes(rng, rng.randrange(1, 80)).replace(b"\n", b" ").replace(b"\r", b" "))
    # never resize the hash table / thread pool from a garbage value
    lines = [l.replace(b"\n", b" ") for l in lines]
    lines = [l for l in lines if b"hash" not in l.lower() and b"thread" not in l.lower() and b"gaviota" not in l.lower() and b"syzygy" not in l.lower()]
    return lines


def mutate_pgn(rng, text):
    b = bytearray(text)
    r = rng.random()
    if r < 0.5:
        for _ in range(rng.choice([1, 2, 5, 20])):
            k = rng.randrange(5)
            if k == 0 and b:
                b[rng.randrange(len(b))] = rng.choice(b"(){}[]\"$;%.*\\\n 0123456789!?-+#=xNKQRBabcdefgh")
            elif k == 1 and b:
                del b[rng.randrange(len(b))]
            elif k == 2:
                b.insert(rng.randrange(len(b) + 1), rng.choice(b"(){}[]\"$;%.*\\\n !?"))
            elif k == 3 and b:
                b[rng.randrange(len(b))] = rng.randrange(256)
            else:
                i = rng.randrange(len(b) + 1)
                b[i:i] = rng.choice([b"(", b"((((", b")", b"{", b"}", b"[", b"\"", b"$", b"$999999999999", b"\n%", b";", b"1-0", b"*", b"e4 (", b"[FEN \"x\"]"])
    elif r < 0.7:
        b = b[:rng.randrange(len(b) + 1)]
    elif r < 0.85:
        # deep nesting
        b = bytearray(b"1. e4 " + b"( e4 " * rng.choice([10, 100, 800]) + b")" * rng.choice([0, 5, 800]))
    else:
        b = bytearray(rand_bytes(rng, rng.choice([10, 100, 4096]), b"(){}[]\"$;%.*\\\n 0123456789!?-+#=xNKQRBabcdefghO" if rng.random() < 0.7 else None))
    return bytes(b[:4096])


# ---------------------------------------------------------------- running
def split_ops(out):
    lines = [l for l in out.split("\n") if l]
    ops = [l for l in lines if l[0].islower()]
    obs = [l for l in lines if l[0] not in "TAGX"]
    extra = [l for l in lines if l[0] in "TAGX"]
    return obs, ops, extra


def run_pair(cpp_exe, ml_exe, cmds, timeout=900, env=None):
    rc1, out1, err1 = sh([cpp_exe], input="\n".join(cmds) + "\n", timeout=timeout, env=env)
    obs, ops, extra = split_ops(out1)
    rc2, out2, err2 = sh([ml_exe], input="\n".join(ops) + "\n", timeout=timeout)
    l2all = [l for l in out2.split("\n") if l]
    l2 = [l for l in l2all if l[0] not in "IH"]
    # model-only lines: I = C17_fen_total evaluated on this string, H = hypothesis of the short-form theorems
    extra = extra + ["m" + l for l in l2all if l[0] in "IH"]
    return rc1, rc2, obs, l2, extra, (err1[-3000:] + err2[-1500:])


def first_diff(l1, l2):
    for i in range(max(len(l1), len(l2))):
        a = l1[i] if i < len(l1) else "<missing>"
        b = l2[i] if i < len(l2) else "<missing>"
        if a != b:
            return i
    return None


def op_of(lines, idx):
    j = min(idx, len(lines) - 1)
    while j > 0 and not lines[j][0].islower():
        j -= 1
    return lines[j]


def op_to_cmd(op):
    """operation line of the trace -> harness command that reproduces it"""
    t = op.split(" ", 1)
    return t[0].upper() + (" " + t[1] if len(t) > 1 else "")


def parse_items(mline):
    """M line -> list of (uci, short, long, ps, pl, pu, check verdict)"""
    if mline.strip() == "M -":
        return []
    return [tuple(x.split(":")) for x in mline[2:].split(" ") if x]


def uci_num(uci):
    f = (ord(uci[0]) - 97) + 8 * (ord(uci[1]) - 49)
    t = (ord(uci[2]) - 97) + 8 * (ord(uci[3]) - 49)
    p = 0
    if len(uci) > 4:
        p = {"q": 2, "r": 3, "b": 4, "n": 5}[uci[4]] + (0 if (t >> 3) == 7 else 6)
    return "%d.%d.%d" % (f, t, p)


def classify_move(board, side, ep, it):
    """which case of the notation a legal move exercises (for the measured distribution)"""
    uci, sh_, lo = it[0], it[1], it[2]
    k = []
    core = sh_.rstrip("+#")
    if core.startswith("O-O"):
        k.append("castle")
    elif core[0] in "KQRBN":
        body = core[1:].replace("x", "")
        extra = body[:-2]
        k.append({"": "piece_plain", 1: ""}.get(extra, "") or
                 ("disamb_both" if len(extra) == 2 else "disamb_file" if extra[0] in "abcdefgh" else "disamb_rank"))
    else:
        k.append("pawn")
        if len(uci) == 5:
            k.append("promotion")
            if "x" in core:
                k.append("capture_promotion")
                if sh_[-1] in "+#":
                    k.append("capture_promotion_with_check")
        f = (ord(uci[0]) - 97) + 8 * (ord(uci[1]) - 49)
        t = (ord(uci[2]) - 97) + 8 * (ord(uci[3]) - 49)
        if "x" in core and board[t] == "." and len(uci) == 4:
            k.append("en_passant")
    if "x" in core:
        k.append("capture")
    if sh_.endswith("+"):
        k.append("check")
    if sh_.endswith("#"):
        k.append("mate")
    return k


def spec_scan(obs, stats, harvest):
    """Implementation output only, against the property itself (no model involved):
       * the short forms of the legal moves of one position are pairwise different,
       * every text form parses back (by the implementation) to the move it was printed from,
       * readFEN(toFEN(p)) = p.
       Returns a list of (what, harness command, detail)."""
    fails = []
    cur_op = None
    cur_state = None
    for l in obs:
        c = l[0]
        if c.islower():
            cur_op = l
            continue
        if c == "P":
            cur_state = l[2:].split(" ")
            if cur_op.startswith("pos "):
                stats["positions"] = stats.get("positions", 0) + 1
        elif c == "E":
            stats["fen_error_%s" % l.split()[1]] = stats.get("fen_error_%s" % l.split()[1], 0) + 1
        elif c == "R":
            if l.split()[1] != "1":
                fails.append(("readFEN(toFEN(p)) differs from p", op_to_cmd(cur_op), l))
        elif c == "M" and cur_op.startswith("pos "):
            items = parse_items(l)
            stats["legal_moves"] = stats.get("legal_moves", 0) + len(items)
            if not items:
                stats["positions_without_legal_move"] = stats.get("positions_without_legal_move", 0) + 1
            seen = {}
            kinds = set()
            for it in items:
                if len(it) != 7:
                    fails.append(("malformed move line", op_to_cmd(cur_op), str(it)))
                    continue
                uci, sh_, lo, ps, pl, pu, ck = it
                # the suffix says what make + MoveGen say: '+' check with a reply, '#' check without, none otherwise
                want_suffix = "" if ck == "n" else ("#" if ck == "c0" else "+")
                for form in (sh_, lo):
                    got_suffix = form[len(form.rstrip("+#")):]
                    if got_suffix != want_suffix:
                        fails.append(("suffix of %r (move %s) is %r but the move gives %s" %
                                      (form, uci, got_suffix, "no check" if ck == "n" else "check with %s replies" % ck[1:]),
                                      op_to_cmd(cur_op), form))
                want = uci_num(uci)
                if sh_ in seen:
                    fails.append(("two legal moves share the short form %r: %s and %s" % (sh_, seen[sh_], uci), op_to_cmd(cur_op), sh_))
                seen[sh_] = uci
                if ps != want:
                    fails.append(("short form %r of %s parses back to %s" % (sh_, uci, ps), op_to_cmd(cur_op), sh_))
                if pl != want:
                    fails.append(("long form %r of %s parses back to %s" % (lo, uci, pl), op_to_cmd(cur_op), lo))
                if pu != want:
                    fails.append(("UCI form of %s parses back to %s" % (uci, pu), op_to_cmd(cur_op), uci))
                for k in classify_move(cur_state[0], cur_state[1], cur_state[3], it):
                    stats["move_" + k] = stats.get("move_" + k, 0) + 1
                    kinds.add(k)
            stats["text_forms_checked"] = stats.get("text_forms_checked", 0) + 3 * len(items)
            if harvest is not None and items and len(harvest) < 6000:
                harvest.append((unhx(cur_op.split()[1]).decode("latin-1"), items, kinds))
        elif c == "S":
            stats["stringToMove_strings"] = stats.get("stringToMove_strings", 0) + len(l.split()) - 1
            stats["stringToMove_accepted"] = stats.get("stringToMove_accepted", 0) + sum(1 for x in l.split()[1:] if x != "0.0.0")
        elif c == "V":
            stats["uciStringToMove_strings"] = stats.get("uciStringToMove_strings", 0) + len(l.split()) - 1
            stats["uciStringToMove_accepted"] = stats.get("uciStringToMove_accepted", 0) + sum(1 for x in l.split()[1:] if x != "0.0.0")
        elif c == "U":
            stats["uci_lines"] = stats.get("uci_lines", 0) + 1
        elif c == "K":
            toks = l.split()[1:]
            stats["pgn_scanner_tokens"] = stats.get("pgn_scanner_tokens", 0) + len(toks)
            for t in toks:
                k = "pgn_scanner_token_type_" + t.split(":")[0]
                stats[k] = stats.get(k, 0) + 1
    return fails


def pseudo_count(ml_exe, fenhex):
    """number of pseudo-legal moves of a FEN by the FIDE Spec (-1: FEN rejected / not computable)"""
    try:
        rc, out, err = sh([ml_exe], input="cnt %s\n" % fenhex, timeout=60)
        for l in out.split("\n"):
            if l.startswith("C "):
                return int(l.split()[1])
    except Exception:
        pass
    return -1


def crash_fens(cmd):
    """FEN strings (hex) a crashing harness / engine command hands to readFEN"""
    t = cmd.split(" ")
    if t[0] in ("POS", "STM", "FEN") and len(t) > 1:
        return [t[1]]
    out = []
    if t[0] in ("UCI", "ENGINE"):
        for h in t[1:]:
            try:
                line = unhx(h)
            except ValueError:
                continue
            m = re.match(rb"\s*position\s+fen\s+(.*?)(\s+moves\b.*)?$", line.split(b"\n")[0], re.S)
            if m:
                out.append(hx(b" ".join(m.group(1).split())))
    return out


def locate_crash(cpp_exe, cmds, env=None):
    """the first command of a chunk on which the harness does not exit normally"""
    for c in cmds:
        rc, out, err = sh([cpp_exe], input=c + "\n", timeout=120, env=env)
        if rc != 0:
            m = re.search(r"(runtime error: [^\n]*|ERROR: AddressSanitizer: [^\n]*|Assertion [^\n]*failed[^\n]*|terminate called[^\n]*\n[^\n]*)", err)
            return c, rc, (m.group(1) if m else err[-400:])
    return None, 0, ""


def shrink_cmd(cpp_exe, ml_exe, cmd):
    """reduce a command to the single string (line) on which model and code differ, then shorten that string"""
    t = cmd.split(" ")

    def bad(c):
        rc1, rc2, l1, l2, _, _ = run_pair(cpp_exe, ml_exe, [c], timeout=120)
        return rc1 != 0 or rc2 != 0 or first_diff(l1, l2) is not None

    def shorten(prefix, h):
        """greedy removal of byte ranges from one hex-encoded string while the disagreement stays"""
        try:
            b = unhx(h)
        except ValueError:
            return h
        budget = 250
        step = max(1, len(b) // 2)
        while step >= 1 and budget > 0:
            i = 0
            while i < len(b) and budget > 0:
                cand = b[:i] + b[i + step:]
                budget -= 1
                if bad(prefix + hx(cand)):
                    b = cand
                else:
                    i += step
            step //= 2
        return hx(b)

    if t[0] == "STM" and len(t) >= 3:
        for s in t[2:]:
            c = " ".join([t[0], t[1], s])
            if bad(c):
                return " ".join([t[0], t[1], shorten("STM %s " % t[1], s)])
    if t[0] == "UCM" and len(t) >= 2:
        for s in t[1:]:
            if bad("UCM " + s):
                return "UCM " + shorten("UCM ", s)
    if t[0] == "FEN" and len(t) == 2 and bad(cmd):
        return "FEN " + shorten("FEN ", t[1])
    if t[0] == "SCAN" and len(t) == 2 and bad(cmd):
        return "SCAN " + shorten("SCAN ", t[1])
    if t[0] == "UCI" and len(t) >= 2:
        cur = t[1:]
        i = len(cur) - 1
        while i >= 0 and len(cur) > 1:
            cand = cur[:i] + cur[i + 1:]
            if bad("UCI " + " ".join(cand)):
                cur = cand
            i -= 1
        if len(cur) == 1 and bad("UCI " + cur[0]):
            return "UCI " + shorten("UCI ", cur[0])
        return "UCI " + " ".join(cur)
    return cmd


def describe_cmd(cmd):
    t = cmd.split(" ")
    d = {"cmd": t[0]}
    try:
        if t[0] in ("POS", "FEN"):
            d["string"] = unhx(t[1]).decode("latin-1")
        elif t[0] == "STM":
            d["fen"] = unhx(t[1]).decode("latin-1")
            d["strings"] = [unhx(x).decode("latin-1") for x in t[2:6]]
        elif t[0] in ("UCM", "UCI", "ENGINE"):
            d["strings"] = [unhx(x).decode("latin-1") for x in t[1:12]]
        elif t[0] in ("PGN", "SCAN"):
            d["bytes"] = unhx(t[1]).decode("latin-1")[:600]
    except Exception:
        pass
    return d


def engine_session(exe, lines, timeout=60, env=None):
    """the real binary: returns (rc, stderr tail); stdin stays open until `quit` was sent"""
    e = dict(os.environ)
    if env:
        e.update(env)
    p = subprocess.Popen([exe], stdin=subprocess.PIPE, stdout=subprocess.PIPE, stderr=subprocess.PIPE, env=e)
    try:
        data = b"\n".join(lines) + b"\nstop\nquit\n"
        out, err = p.communicate(data, timeout=timeout)
        return p.returncode, err.decode("latin-1")[-600:], out.decode("latin-1")
    except subprocess.TimeoutExpired:
        p.kill()
        p.communicate()
        return 124, "timeout after %ds (hang)" % timeout, ""


def run(ctx):
    ctx.rule = ("positions: every position of random legal games (moves from the engine's own MoveGen) from seeded starts + synthetic "
                "placements biased to several like pieces (Q/N/R/B) attacking one square (file, rank or both needed), pawns on the "
                "seventh rank with capture-promotions and check/mate, castling set-ups, en-passant incl. the fifth-rank pin; for each "
                "position ALL legal moves in short, long and UCI form + the three parse-backs + readFEN(toFEN); malformed streams: "
                "mutated real move texts / SAN variants / random bytes up to 4 KB to stringToMove, uciStringToMove, readFEN and UCI "
                "`position` lines through the real UCIProtocol::handleCommand; PGN: random game trees with variations, comments, NAGs "
                "written and parsed back (tree equality in the harness), mutated PGN bytes; non-trivial = a position with >=1 legal "
                "move or a malformed string; distinct by input string")
    ctx.trusted_base = ["Coq 8.16.1 kernel (coqc, vm_compute)", "extraction (ExtrOcamlBasic only) + OCaml + drivers/text_driver.ml",
                        "harness/text_harness.cpp (incl. its PGN writer with comments/NAGs and its tree comparison)",
                        "hand-written models coq/TextIO/{MoveText,MoveTextP,UciLine}.v and coq/Chess/Fen.v tied by correspondence",
                        "legal move list of the model side = coq/Chess/Spec.v (FIDE rules), of the implementation = its MoveGen",
                        "props/c02.py table regeneration (coq/gen/ZobristTables.v)"]
    ctx.assumptions = ["model = code is established by differential testing on every legal move of every generated position and on the "
                       "malformed streams, not by proof",
                       "PGN scanner/parser/writer and the UCI commands other than `position` are NOT modelled: tree round trip and "
                       "crash-freedom there are tested only (finder), not proved",
                       "sanitizers / libstdc++ assertions (thorough tier) only support the finder"]
    rng = ctx.rng
    stats = {}

    # (1) regenerated tables needed by Chess/PositionInst.v
    pos_exe = cbuild.build_harness("pos_harness")
    c02.regenerate(pos_exe)

    # (2) prove
    ok, info = coqbuild.prove(ctx, PROP_FILE, timeout=ctx.scale(900, 3600))
    proof_broken = not ok
    if proof_broken:
        ctx.log("proof stage broken: %s" % (info.get("errors") or info.get("forbidden") or info.get("illegal_axioms")))

    # (3) harness + extracted model
    env = None
    if ctx.quick:
        cpp_exe = cbuild.build_harness("text_harness", extra_srcs=HARNESS_SRCS)
    else:
        cpp_exe = cbuild.build_harness("text_harness", extra_srcs=SAN_SRCS, extra_flags=SAN_FLAGS)
        env = {"ASAN_OPTIONS": "detect_leaks=0:abort_on_error=0", "UBSAN_OPTIONS": "print_stacktrace=0"}
    ml_exe = coqbuild.extract("ExtractText.v", "text_driver.ml", "text_driver")

    disagreements = []      # (harness command, cpp line, model line, note)
    crashes = []            # (harness command, rc, message)
    spec_fails = []
    tree_fails = []
    model_fails = []        # statements about the model alone that its evaluation refutes
    harvest = []
    pgn_texts = []

    def process(cmds, timeout=1200):
        if not cmds:
            return
        n = max(1, min(NCPU * 2, len(cmds)))
        chunks = [cmds[i::n] for i in range(n)]
        chunks = [c for c in chunks if c]
        with ThreadPoolExecutor(max_workers=NCPU) as ex:
            results = list(ex.map(lambda ch: run_pair(cpp_exe, ml_exe, ch, timeout=timeout, env=env), chunks))
        for ch, (rc1, rc2, l1, l2, extra, err) in zip(chunks, results):
            if rc1 != 0:
                c, rc, msg = locate_crash(cpp_exe, ch, env=env)
                crashes.append((c or ch[0], rc or rc1, msg or err[-400:]))
                continue
            d = first_diff(l1, l2)
            if rc2 != 0 or d is not None:
                d = d if d is not None else 0
                disagreements.append((op_to_cmd(op_of(l1, d)) if l1 else ch[0], l1[d] if d < len(l1) else "<missing>",
                                      l2[d] if d < len(l2) else "<missing>", "rc=%d/%d %s" % (rc1, rc2, err[-300:] if rc2 else "")))
            spec_fails.extend(spec_scan(l1, stats, harvest))
            ctx.evaluated(sum(1 for l in l1 if not l[0].islower()))
            for l in extra:
                if l[0] == "T":
                    t = l.split()
                    if t[1] == "1":
                        stats["pgn_tree_roundtrips"] = stats.get("pgn_tree_roundtrips", 0) + 1
                        for k, v in zip(("pgn_nodes", "pgn_variations", "pgn_comments", "pgn_nags"), t[2:6]):
                            stats[k] = stats.get(k, 0) + int(v)
                        stats["pgn_max_nesting"] = max(stats.get("pgn_max_nesting", 0), int(t[6]))
                    else:
                        tree_fails.append(l)
                    ctx.evaluated()
                elif l[0] == "A":
                    for kv in l.split()[1:]:
                        k, v = kv.rsplit("=", 1)
                        stats["pgn_adjacency_" + k] = stats.get("pgn_adjacency_" + k, 0) + int(v)
                elif l[0] == "G":
                    t = l.split()
                    stats["pgn_malformed_inputs"] = stats.get("pgn_malformed_inputs", 0) + 1
                    stats["pgn_malformed_games_parsed"] = stats.get("pgn_malformed_games_parsed", 0) + int(t[1])
                    stats["pgn_malformed_rejected_with_error"] = stats.get("pgn_malformed_rejected_with_error", 0) + (1 if int(t[3]) else 0)
                    ctx.evaluated()
                elif l[0] == "X":
                    pgn_texts.append(unhx(l.split()[1]))
                elif l.startswith("mI"):
                    stats["fen_index_model_evaluated"] = stats.get("fen_index_model_evaluated", 0) + 1
                    if l.split()[1] != "1":
                        model_fails.append(("C17_fen_total fails on the model: " + l[3:], ch))
                elif l.startswith("mH"):
                    k = "short_form_hypothesis_holds" if l.split()[1] == "1" else "short_form_hypothesis_NOT_met"
                    stats[k] = stats.get(k, 0) + 1
                    k = "fen_accepted_position_passes_Spec_accepted" if l.split()[2] == "1" else "fen_accepted_position_FAILS_Spec_accepted"
                    stats[k] = stats.get(k, 0) + 1
            if len(ctx.samples) < 4:
                for i, l in enumerate(l1):
                    if l.startswith("M ") and l != "M -" and i < len(l2):
                        ctx.sample({"op": op_to_cmd(l1[i - 3])[:200] if i >= 3 else "", "cpp": l[:300], "model": l2[i][:300]})
                        break
        for c in cmds:
            ctx.nontrivial(c[:300])

    # corpus of past disagreements first
    if os.path.exists(CORPUS):
        cl = [l.strip() for l in open(CORPUS) if l.strip() and not l.startswith("#")]
        process(cl)
        ctx.count("corpus_commands", len(cl))

    # phase 1: positions
    n_walks = ctx.scale(36, 2500)
    starts = c02.SEED_FENS + c02.PROMO_FENS
    walks = ["WALK %d %d %s" % (rng.getrandbits(48), rng.choice([60, 90, 120]), hx(rng.choice(starts) if rng.random() < 0.6 else START))
             for _ in range(n_walks)]
    n_syn = ctx.scale(2600, 200000)
    syn = ["POS " + hx(gen_synthetic(rng)) for _ in range(n_syn)]
    pgn_seeds = ["PGNTXT %d %d %s" % (rng.getrandbits(40), rng.choice([5, 20, 60]), hx(START)) for _ in range(ctx.scale(40, 400))]
    process(walks + syn + pgn_seeds)
    ctx.count("walks", n_walks)
    ctx.count("synthetic_positions_offered", n_syn)

    # phase 2: malformed streams on the harvested positions
    fens = [h[0] for h in harvest] or [START]
    n_stm = ctx.scale(700, 40000)
    stm = []
    for _ in range(n_stm):
        fen, items, _k = rng.choice(harvest) if harvest else (START, [], None)
        strs = gen_move_strings(rng, items, 16)
        stm.append("STM %s %s" % (hx(fen), " ".join(hx(s) for s in strs)))
    ucm = ["UCM " + " ".join(hx(s) for s in gen_uci_move_strings(rng, 40)) for _ in range(ctx.scale(100, 5000))]
    fen_cmds = ["FEN " + hx(s) for s in gen_fen_strings(rng, fens + c02.SEED_FENS, ctx.scale(4000, 300000))]
    uci_cmds = []
    for _ in range(ctx.scale(500, 30000)):
        lines = gen_uci_session(rng, fens, None)
        uci_cmds.append("UCI " + " ".join(hx(l) for l in lines))
    pgn_cmds = ["PGNRT %d %d %s" % (rng.getrandbits(40), rng.choice([3, 10, 30, 80]), hx(rng.choice([START] + fens[:400])))
                for _ in range(ctx.scale(300, 20000))]
    pgn_cmds += ["PGNTS %d %d %s" % (rng.getrandbits(40), rng.choice([3, 10, 30, 80]), hx(rng.choice([START] + fens[:400])))
                 for _ in range(ctx.scale(200, 10000))]
    base_texts = pgn_texts or [b"1. e4 e5 2. Nf3 *"]
    pgn_cmds += ["PGN " + hx(mutate_pgn(rng, rng.choice(base_texts))) for _ in range(ctx.scale(1500, 100000))]
    # the tokenizer alone (modelled: TextIO/PgnScan.v): generated texts in every adjacency style, mutated and random bytes
    scan_cmds = ["SCAN " + hx(t[:4096]) for t in base_texts]
    scan_cmds += ["SCAN " + hx(mutate_pgn(rng, rng.choice(base_texts))) for _ in range(ctx.scale(2500, 150000))]
    scan_cmds += ["SCAN " + hx(rand_bytes(rng, rng.randrange(0, 60), b"(){}[]\"$;%.*\\\n\r\t 019!?-+#=xNKQabO"))
                  for _ in range(ctx.scale(2500, 150000))]
    pgn_cmds += scan_cmds
    ctx.count("pgn_scanner_inputs", len(scan_cmds))
    process(stm + ucm + fen_cmds + uci_cmds + pgn_cmds)
    ctx.count("malformed_move_strings", n_stm * 16)
    ctx.count("malformed_uci_move_strings", len(ucm) * 40)
    ctx.count("malformed_fen_strings", len(fen_cmds))
    ctx.count("uci_sessions", len(uci_cmds))

    # the real engine binary on go / setoption / isready lines with broken arguments (crash / hang only)
    n_eng = ctx.scale(24, 400)
    eng = cbuild.build_engine(net_kind="material", net_seed=1)
    scripts = [gen_engine_script(rng, fens) for _ in range(n_eng)]
    with ThreadPoolExecutor(max_workers=max(2, NCPU // 4)) as ex:
        eres = list(ex.map(lambda s: engine_session(eng, s), scripts))
    for s, (rc, err, out) in zip(scripts, eres):
        ctx.evaluated()
        stats["engine_sessions"] = stats.get("engine_sessions", 0) + 1
        stats["engine_lines"] = stats.get("engine_lines", 0) + len(s)
        if rc != 0:
            crashes.append(("ENGINE " + " ".join(hx(l) for l in s), rc, err))

    for k, v in sorted(stats.items()):
        ctx.count(k, v)
    need = ("disamb_file", "disamb_rank", "disamb_both", "capture_promotion_with_check", "castle", "en_passant", "mate")
    ctx.notes["distribution"] = {k: stats.get("move_" + k, 0) for k in need}
    ctx.notes["not_proved"] = ("PGN scanner/parser/writer round trip and crash-freedom on arbitrary PGN bytes, and the UCI commands other "
                               "than `position`, are exercised by the finder only (tree equality in the harness, exit status)")
    ctx.traces_validated = ctx.evaluations

    # ---- verdicts
    for what, cmd, detail in spec_fails[:3]:
        key = "cmd:" + cmd[:300].replace(" ", ",")
        ctx.violation("text format property fails on the real code: " + what,
                      {"failing_input": {"harness_command": cmd, "decoded": describe_cmd(cmd), "detail": detail, "count": len(spec_fails)}}, key=key)
    if tree_fails:
        # look for a SMALL tree showing the same failure (short games, many seeds): the replay should be readable
        small = ["PGNRT %d %d %s" % (rng.getrandbits(40), rng.choice([2, 3, 4, 6]), hx(START)) for _ in range(ctx.scale(1500, 6000))]
        rc_s, out_s, _e = sh([cpp_exe], input="\n".join(small) + "\n", timeout=600, env=env)
        cand = sorted((l for l in out_s.split("\n") if l.startswith("T 0")), key=len)
        if cand:
            heads = {l.split(" text=")[0] for l in tree_fails}
            same = [l for l in cand if l.split(" text=")[0] in heads]
            tree_fails = (same or cand)[:1] + tree_fails
    for l in tree_fails[:3]:
        f = dict(re.findall(r"(text|want|got)=(\S+)", l))

        def dec(k):
            v = f.get(k)
            return None if v is None else unhx(v).decode("latin-1")
        head = l.split(" text=")[0]
        ctx.violation("PGN game tree does not survive write + parse: " + head,
                      {"failing_input": {"observation": head, "pgn_text": dec("text"), "tree_written": dec("want"),
                                         "tree_parsed_back": dec("got") if f.get("got") != "-" else "(parser threw ChessParseError)",
                                         "count": len(tree_fails)}},
                      key="pgn:" + head.replace(" ", ","))
    # finding F1 is replayed on every run: is it still real?
    rc_w, out_w, err_w = sh([cpp_exe], input="STM %s %s\n" % (hx(F1_FEN), hx("Qb2")), timeout=120, env=env)
    rc_e, err_e, _o = engine_session(eng, [b"position fen " + F1_FEN.encode(), b"go depth 2"], timeout=60)
    ctx.count("f1_witness_pseudo_legal_moves", max(0, pseudo_count(ml_exe, hx(F1_FEN))))
    if rc_w != 0 or rc_e != 0:
        ctx.violation("memory error on a FEN with more than %d pseudo-legal moves: readFEN accepts it, MoveGen writes past the MoveList "
                      "(TextIO::stringToMove harness exit %s, engine `position fen` + `go depth 2` exit %s)" % (MOVELIST_CAPACITY, rc_w, rc_e),
                      {"failing_input": {"harness_command": "STM %s %s" % (hx(F1_FEN), hx("Qb2")), "fen": F1_FEN, "move_string": "Qb2",
                                         "harness_exit": rc_w, "engine_script": ["position fen " + F1_FEN, "go depth 2"], "engine_exit": rc_e,
                                         "stderr": (err_w[-600:] + err_e[-300:])}}, key=F1_KEY)
    else:
        ctx.log("F1 witness: no crash (harness %s, engine %s) - the MoveList overflow is not reproduced in this tree" % (rc_w, rc_e))
        ctx.count("f1_not_reproduced", 1)
    # finding F2 likewise (engine level: the text layer accepts the clock, the search indexes a table with it)
    rc_2, err_2, _o = engine_session(eng, [b"position fen " + F2_FEN.encode(), b"go depth 2"], timeout=60)
    if rc_2 != 0:
        ctx.violation("memory error after a FEN with a negative half-move clock: readFEN accepts it, Position::historyHash indexes "
                      "moveCntKeys[min(halfMoveClock, 100)] with it (engine `position fen` + `go depth 2` exit %s)" % rc_2,
                      {"failing_input": {"harness_command": "ENGINE %s %s" % (hx(b"position fen " + F2_FEN.encode()), hx(b"go depth 2")),
                                         "engine_script": ["position fen " + F2_FEN, "go depth 2"], "engine_exit": rc_2, "stderr": err_2[-300:]}},
                      key=F2_KEY)
    else:
        ctx.log("F2 witness: no crash - the out-of-range half-move clock is not reproduced in this tree")
        ctx.count("f2_not_reproduced", 1)
    other_crashes = []
    for cmd, rc, msg in crashes:
        if cmd.startswith("ENGINE ") and any(fen_clock_out_of_range(f) for f in crash_fens(cmd)):
            ctx.count("generated_inputs_hitting_F2", 1)
            ctx.violation("memory error after a FEN with an out-of-range half-move clock",
                          {"failing_input": {"harness_command": cmd[:20000], "decoded": describe_cmd(cmd), "exit_status": rc, "stderr": msg}},
                          key=F2_KEY)
            continue
        cnts = [pseudo_count(ml_exe, f) for f in crash_fens(cmd)]
        if any(c > MOVELIST_CAPACITY for c in cnts):
            # the same defect met by a generated input
            ctx.count("generated_inputs_hitting_F1", 1)
            ctx.violation("memory error on a FEN with more than %d pseudo-legal moves (%s)" % (MOVELIST_CAPACITY, max(cnts)),
                          {"failing_input": {"harness_command": cmd[:20000], "decoded": describe_cmd(cmd), "exit_status": rc, "stderr": msg}},
                          key=F1_KEY)
        else:
            other_crashes.append((cmd, rc, msg))
    crashes = other_crashes
    for cmd, rc, msg in crashes[:3]:
        small = cmd
        ctx.violation("the real code does not survive this input (exit status %s): %s" % (rc, msg.strip()[:300]),
                      {"failing_input": {"harness_command": small[:20000], "decoded": describe_cmd(small), "exit_status": rc, "stderr": msg}},
                      key="crash:" + describe_cmd(small).get("cmd", "?") + ":" + re.sub(r"\s+", "_", msg.strip()[:80]))
    corr_broken = bool(disagreements)
    if spec_fails or tree_fails or crashes:
        return
    if model_fails and not corr_broken:
        what, ch = model_fails[0]
        ctx.violation(what, {"broken": what, "chunk_head": ch[:3], "count": len(model_fails)}, no_failing_input=True)
        return
    if not proof_broken and not corr_broken:
        return
    # (5) finder: implementation against the property itself in the neighbourhood of the disagreement
    replay = {"broken_proof": info if proof_broken else None, "disagreement": None}
    found = None
    if corr_broken:
        cmd, a, b, note = disagreements[0]
        small = shrink_cmd(cpp_exe, ml_exe, cmd)
        replay["disagreement"] = {"harness_command": small[:20000], "decoded": describe_cmd(small), "cpp": a[:2000], "model": b[:2000],
                                  "note": note, "count": len(disagreements)}
        try:
            if len(small) < 20000 and REPO == "/repo":      # scratch-tree runs (mutation testing) do not grow the corpus
                with open(CORPUS, "a") as f:
                    f.write("# seed %d\n%s\n" % (ctx.seed, small))
        except OSError:
            pass
        # neighbourhood: games from the position of the disagreement, implementation only
        t = small.split(" ")
        if t[0] in ("POS", "STM") and len(t) > 1:
            near = ["WALK %d 40 %s" % (rng.getrandbits(40), t[1]) for _ in range(ctx.scale(20, 400))]
            rc, out, err = sh([cpp_exe], input="\n".join(near) + "\n", timeout=600, env=env)
            obs, _, _ = split_ops(out)
            st2 = {}
            f2 = spec_scan(obs, st2, None)
            ctx.count("finder_positions_vs_property", st2.get("positions", 0))
            if f2:
                found = f2[0]
    if found:
        what, cmd, detail = found
        replay["failing_input"] = {"harness_command": cmd, "decoded": describe_cmd(cmd), "detail": detail}
        ctx.violation("text format property fails on the real code: " + what, replay, key="cmd:" + cmd[:300].replace(" ", ","))
    else:
        what = ("theorem(s) in %s no longer check" % PROP_FILE) if proof_broken else \
               "correspondence model/implementation broken: " + replay["disagreement"]["decoded"].get("cmd", "")
        replay["broken"] = what
        ctx.violation(what, replay, no_failing_input=True)


def replay(ctx, body):
    r = body.get("replay", {})
    d = r.get("failing_input") or r.get("disagreement") or {}
    cmd = d.get("harness_command")
    if not cmd:
        print("nothing to replay:", r.get("broken"))
        return
    if cmd.startswith("ENGINE "):
        eng = cbuild.build_engine(net_kind="material", net_seed=1)
        lines = [unhx(x) for x in cmd.split(" ")[1:]]
        print("engine lines:", lines)
        print(engine_session(eng, lines)[:2])
        return
    cpp_exe = cbuild.build_harness("text_harness", extra_srcs=HARNESS_SRCS)
    ml_exe = coqbuild.extract("ExtractText.v", "text_driver.ml", "text_driver")
    rc1, rc2, l1, l2, extra, err = run_pair(cpp_exe, ml_exe, [cmd])
    print("command:", describe_cmd(cmd))
    print("implementation (exit %d):\n%s" % (rc1, "\n".join(l1 + extra)[:4000]))
    if rc1 != 0 and not l2 and cmd.split(" ")[0] in ("POS", "STM", "UCM", "FEN", "UCI"):
        # the implementation died before echoing the operation: give the model the operation line directly
        t = cmd.split(" ", 1)
        rc2, out2, _e = sh([ml_exe], input=t[0].lower() + (" " + t[1] if len(t) > 1 else "") + "\n", timeout=300)
        l2 = [l for l in out2.split("\n") if l]
    print("model (exit %d):\n%s" % (rc2, "\n".join(l2)[:4000]))
    if err.strip():
        print("stderr:", err[-1500:])
