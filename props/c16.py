"""C16 — reachable positions are never declared illegal; proof games are valid (DESIGN.md section 6, C16).

What is PROVED (Coq, Properties_C16.v): the static piece-count rules (validatePieceCounts,
pieceCountsValid) and the first rule of the distance heuristic (enoughRemainingPieces) accept every
position of every legal game; the extracted proof-game checker accepts exactly the proof games.
What is only SEARCHED (this module, random legal games through the real code): everything heuristic -
admissibility of the distance bound, blocked squares, the proof-kernel / extended-kernel search and
its pruning, the last-move analysis, the verdict assembly of `texelutil proofgame -f`.
"""
import os
import shutil
import tempfile
import time
from concurrent.futures import ThreadPoolExecutor

from vlib import cbuild, coqbuild
from vlib.common import CACHE, NCPU, REPO, VERIF, sh, sha_files

PROP_FILE = "Properties_C16.v"
CORPUS = os.path.join(VERIF, "corpus", "c16.txt")
START = "rnbqkbnr/pppppppp/8/8/8/8/PPPPPPPP/RNBQKBNR w KQkq - 0 1"
INT_MAX = 2147483647
MIN_MEN = 26

# Findings on the unchanged tree (confirmed against the real code, see findings/proposed/c16.txt).  Each has a
# fixed witness game that is replayed on every run; violations of the same family met in random games are
# attributed to the family (and only counted) when - and only when - the witness key is a listed known finding.
#  A: the "admissible" distance heuristic does not know castling (king and rook are routed separately):
#     after 1.e4 e5 2.Nf3 Nc6 3.Bc4 Bc5 4.O-O the bound from the initial position is 11 > 7.
W_CASTLE = "e2e4 e7e5 g1f3 b8c6 f1c4 f8c5 e1g1".split()
KEY_CASTLE = "bound-ignores-castling:r1bqk1nr/pppp1ppp/2n5/2b1p3/2B1P3/5N2/PPPP1PPP/RNBQ1RK1_b_kq_-"
CASTLE_SLACK = 4          # plies: castling replaces two king moves and one rook move (3 moves) by one move
#  B: the distance heuristic does not know en passant: from a position whose e.p. capture leads to the goal
#     it answers "unreachable" (after 1.e4 a6 2.e5 d5 the goal 3.exd6 gets INT_MAX from the position before it).
W_EP = "e2e4 a7a6 e4e5 d7d5 e5d6".split()
KEY_EP = "bound-ignores-enpassant:rnbqkbnr/1pp1pppp/p2P4/8/8/8/PPPP1PPP/RNBQKBNR_b_KQkq_-"
CASTLING_MOVES = ("e1g1", "e1c1", "e8g8", "e8c8")


# ---------------------------------------------------------------- building the real tool
def build_texelutil():
    """`texelutil` from the current tree: app/texelutil/*.cpp (all of them; armadillo/gsl parts are
    behind USE_ARMADILLO/USE_GSL and stay off) linked with the libraries of cbuild.build_libs()."""
    libs = cbuild.build_libs()
    app = os.path.join(REPO, "app", "texelutil")
    srcs = sorted(os.path.join(app, f) for f in os.listdir(app) if f.endswith(".cpp"))
    hdrs = sorted(os.path.join(app, f) for f in os.listdir(app) if f.endswith(".hpp"))
    h = sha_files(srcs + hdrs, extra=libs["hash"])
    d = os.path.join(CACHE, "cxx", "h-texelutil-" + h)
    exe = os.path.join(d, "texelutil")
    if os.path.exists(exe):
        os.utime(d, None)
        return exe
    with cbuild._dir_lock(d):
        if os.path.exists(exe):
            return exe
        os.makedirs(d, exist_ok=True)
        inc = ["-I" + i for i in libs["inc"] + [app]]
        jobs, objs = [], []
        for s in srcs:
            o = os.path.join(d, os.path.basename(s) + ".o")
            jobs.append((["g++"] + libs["flags"] + inc + ["-c", s, "-o", o], o))
            objs.append(o)
        errs = cbuild._compile_many(jobs)
        if errs:
            shutil.rmtree(d, ignore_errors=True)
            raise cbuild.BuildError("compiling app/texelutil failed:\n" + "\n".join(errs[:2]))
        cmd = ["g++"] + libs["flags"] + objs + [cbuild.nndata_obj(None)] + libs["libs"] + ["-lpthread", "-lrt", "-o", exe + ".tmp"]
        rc, so, se = sh(cmd, timeout=900)
        if rc != 0:
            shutil.rmtree(d, ignore_errors=True)
            raise cbuild.BuildError("linking texelutil failed:\n" + se[-3000:])
        os.rename(exe + ".tmp", exe)
        for o in objs:
            try:
                os.remove(o)
            except OSError:
                pass
    return exe


# ---------------------------------------------------------------- games
class Game:
    __slots__ = ("moves", "flags", "fens", "mode", "seed", "want", "minmen")

    def __init__(self, moves, flags, mode, seed, want, minmen=MIN_MEN):
        self.moves, self.flags, self.mode, self.seed, self.want, self.minmen = moves, flags, mode, seed, want, minmen
        self.fens = None

    @property
    def goal(self):
        return self.fens[-1]


def gen_games(ctx, harness, n):
    rng = ctx.rng
    cmds, meta = [], []
    for i in range(n):
        # 6/7 = directed at the proof-kernel search (promotions by capture / straight, file-changing pawns, ...)
        mode = rng.choice([0, 0, 1, 1, 1, 2, 2, 3, 3, 4, 5, 5, 6, 6, 6, 6, 7, 7, 7])
        r = rng.random()
        if r < 0.15:
            plies = rng.randint(1, 12)
        elif r < 0.5:
            plies = rng.randint(10, 60)
        else:
            plies = rng.randint(40, 150)
        if mode == 1 and plies < 50:
            plies += 50                                   # promotions need time
        minmen = MIN_MEN
        if mode in (6, 7):
            plies = rng.randint(16, 110)
            # few captures allowed (27..29 men): the kernel cannot dodge a capture-promotion by an earlier file change;
            # a smaller share with fewer men (deeper kernel search, larger time limit)
            minmen = rng.choice([26, 26, 26, 27, 28, 28, 29, 22])
        seed = rng.getrandbits(48)
        cmds.append("GAME %d %d %d %d" % (seed, plies, minmen, mode))
        meta.append((mode, seed, plies, minmen))
    rc, out, err = sh([harness], input="\n".join(cmds) + "\n", timeout=600)
    if rc != 0:
        raise RuntimeError("pg_harness GAME failed: %s" % err[-500:])
    games = []
    for line, (mode, seed, plies, minmen) in zip(out.strip().split("\n"), meta):
        head, _, mv = line.partition("|")
        t = head.split()
        moves = mv.split()
        if t[0] != "G" or int(t[1]) != len(moves):
            raise RuntimeError("bad GAME line: " + line[:200])
        if moves:
            games.append(Game(moves, t[2], mode, seed, plies, minmen))
    # prefix FENs
    rc, out, err = sh([harness], input="".join("FENS | %s\n" % " ".join(g.moves) for g in games), timeout=600)
    if rc != 0:
        raise RuntimeError("pg_harness FENS failed: %s" % err[-500:])
    blocks = out.split("END\n")
    for g, blk in zip(games, blocks):
        fens = [l.split(" ", 2)[2] for l in blk.strip().split("\n") if l.startswith("P ")]
        if len(fens) != len(g.moves) + 1:
            raise RuntimeError("bad FENS block")
        g.fens = fens
    return games


def board_map(fen):
    """square index (a1=0) -> piece letter"""
    b = {}
    rows = fen.split()[0].split("/")
    for ri, row in enumerate(rows):
        f = 0
        for c in row:
            if c.isdigit():
                f += int(c)
            else:
                b[(7 - ri) * 8 + f] = c
                f += 1
    return b


def sq_idx(s):
    return (ord(s[1]) - 49) * 8 + ord(s[0]) - 97


def is_king_move(fen, m):
    return board_map(fen).get(sq_idx(m[:2]), "").lower() == "k"


def ep_capture_indices(g):
    """indices i such that move i of the game is an en-passant capture"""
    res = set()
    for i, m in enumerate(g.moves):
        if m[0] != m[2] and len(m) == 4:
            b = board_map(g.fens[i])
            if b.get(sq_idx(m[:2]), "").lower() == "p" and sq_idx(m[2:4]) not in b:
                res.add(i)
    return res


def template_games(rng, n):
    """Constructed legal games (validated afterwards by the engine's MoveGen) in which the proof kernel is forced:
    all castling rights kept (e1/e8 and the corners blocked, no promotion from the d/f files), c/g pawns unmoved, exactly as
    many captures as needed, and both sides promote an e-file pawn by capturing on d8/f8 resp. d1/f1 - in the seed shape
    (white knight takes e5, black's d-pawn takes a piece on e2) and its colour-mirrored shape, with different deposited
    pieces, capture squares, promotion pieces, tempo moves and trailing quiet moves."""
    out = []
    for _ in range(n):
        pw, pb = rng.choice("nb"), rng.choice("nb")
        mirrored = rng.random() < 0.5
        dep = rng.choice("BQ")                       # the piece put en prise on e2 (e7 in the mirrored shape)
        if not mirrored:
            tempo = rng.choice([["a7a6", "a6a5", "a5a4"], ["h7h6", "h6h5", "h5h4"], ["a7a6", "h7h6", "h6h5"], ["b8a6", "a6b8", "b8a6"]])
            wt = rng.choice(["d8", "f8"])
            bt = "d1" if dep == "B" else "f1"
            mv = ["e2e4", "e7e5", "g1f3", "d7d5", "f3e5", "d5d4", "e5c4", "d4d3", "f1e2" if dep == "B" else "d1e2", "d3e2",
                  "e4e5", tempo[0], "e5e6", tempo[1], "e6e7", tempo[2], "e7" + wt + pw, "e2" + bt + pb]
        else:
            t0 = rng.choice(["a2a3", "h2h3"])
            tempo = {"a2a3": ["a3a4", "a4a5"], "h2h3": ["h3h4", "h4h5"]}[t0]
            wt = "d8" if dep == "B" else "f8"
            bt = rng.choice(["d1", "f1"])
            mv = [t0, "e7e5", "e2e4", "g8f6", "d2d4", "f6e4", "d4d5", "e4c5", "d5d6", "f8e7" if dep == "B" else "d8e7", "d6e7",
                  "e5e4", tempo[0], "e4e3", tempo[1], "e3e2", "e7" + wt + pw, "e2" + bt + pb]
        # trailing quiet moves (a game whose script turns out illegal is dropped by the validation)
        wq = ["b1c3", "b2b3", "g2g3"] + ([] if mirrored else ["c4e3", "c4a3"])
        bq = ["b7b6", "g7g6"] + (["c5e6", "b8c6"] if mirrored else ["g8h6"])
        rng.shuffle(wq)
        rng.shuffle(bq)
        for k in range(rng.choice([0, 0, 1, 2])):
            mv += [wq[k], bq[k]]
        out.append(mv)
    return out


def game_stats(g):
    """what the game contains, in the terms of the proof-kernel search's case splits"""
    st = {"prom_w": 0, "prom_b": 0, "capprom_w": 0, "capprom_b": 0, "under": 0, "pxp": 0, "pxpiece": 0, "piecexp": 0,
          "piecexpiece": 0, "bishop_home": 0}
    for i, m in enumerate(g.moves):
        b = board_map(g.fens[i])
        mover = b.get(sq_idx(m[:2]), "?")
        victim = b.get(sq_idx(m[2:4]))
        white = mover.isupper()
        is_pawn = mover.lower() == "p"
        if is_pawn and m[0] != m[2] and victim is None:
            victim = "p" if white else "P"                 # en passant
        if len(m) == 5:
            st["prom_w" if white else "prom_b"] += 1
            if m[4] != "q":
                st["under"] += 1
            if m[0] != m[2]:
                st["capprom_w" if white else "capprom_b"] += 1
        if victim is not None:
            vp = victim.lower() == "p"
            st["pxp" if is_pawn and vp else "pxpiece" if is_pawn else "piecexp" if vp else "piecexpiece"] += 1
            if victim.lower() == "b" and m[2:4] in ("c1", "f1", "c8", "f8"):
                st["bishop_home"] += 1
    fb = board_map(g.goal)
    for white in (True, False):
        pawn = "P" if white else "p"
        files = [0] * 8
        dark = light = 0
        for sq, pc in fb.items():
            if pc == pawn:
                files[sq % 8] += 1
            if pc == ("B" if white else "b"):
                if (sq % 8 + sq // 8) % 2 == 0:
                    dark += 1
                else:
                    light += 1
        st["maxfile_" + ("w" if white else "b")] = max(files)
        st["bishop_imbalance_" + ("w" if white else "b")] = int(dark != light)
    return st


def fen4(fen):
    return " ".join(fen.split()[:4])


def fen_key(fen):
    return "fen:" + fen4(fen).replace(" ", "_")


# ---------------------------------------------------------------- running the tool
def parse_filter_line(line):
    """'<6 FEN fields> tok: data ... tok: data' -> (fen, {tok: [data]})"""
    t = line.split()
    fen = " ".join(t[:6])
    data, cur = {}, None
    for x in t[6:]:
        if x.endswith(":"):
            cur = x[:-1]
            data[cur] = []
        elif cur is not None:
            data[cur].append(x)
    return fen, data


def run_filter_batch(tool, fens, per_pos_timeout, extra=()):
    """First stage of `texelutil proofgame -f` (static rules, distance heuristic with and without
    last-move analysis, proof kernel, extended kernel) on a list of FENs, one process, -j 1 so that
    output is in order; a position that exceeds the time limit is skipped (reported as timeout).
    Returns list of (fen, data | None, note)."""
    res = []
    todo = list(fens)
    while todo:
        chunk = todo[:40]
        rc, out, err = sh([tool, "-j", "1", "proofgame", "-f"] + list(extra), input="\n".join(chunk) + "\n",
                          timeout=per_pos_timeout + 0.1 * len(chunk))
        lines = [l for l in out.split("\n") if l.strip()]
        if out and not out.endswith("\n") and lines:
            lines = lines[:-1]                       # an incomplete last line
        done = 0
        for l in lines:
            fen, data = parse_filter_line(l)
            if done < len(chunk) and fen == chunk[done]:
                res.append((fen, data, ""))
                done += 1
        if done < len(chunk):
            if rc == 124:
                res.append((chunk[done], None, "timeout"))
            else:
                res.append((chunk[done], None, "exit %d: %s" % (rc, err[-300:].replace("\n", " | "))))
            done += 1
        todo = todo[done:]
    return res


def run_deep(tool, fen, workdir, idx, timeout, extra=()):
    """Iterated mode `proofgame -f -o`: kernel -> path -> proof game.  Returns the most advanced
    complete line for the position, the process exit code and the stderr tail."""
    base = os.path.join(workdir, "p%d_" % idx)
    t0 = time.time()
    rc, out, err = sh([tool, "-j", "1", "proofgame", "-f", "-o", base] + list(extra), input=fen + "\n", timeout=timeout)
    best = None
    k = 0
    while True:
        f = "%s%02d" % (base, k)
        if not os.path.exists(f):
            break
        txt = open(f, errors="replace").read()
        os.remove(f)
        for l in txt.split("\n")[:-1] if not txt.endswith("\n") else txt.split("\n"):
            if l.strip():
                ffen, data = parse_filter_line(l)
                if ffen == fen:
                    best = data
        k += 1
    return best, rc, err[-400:], time.time() - t0


def verdict_kind(data):
    if data is None:
        return "none"
    if "illegal" in data:
        return "illegal"
    if "legal" in data and "proof" in data:
        return "legal"
    if "unknown" in data:
        if "fail" in data:
            return "unknown-fail"
        if "path" in data:
            return "unknown-path"
        if "extKernel" in data:
            return "unknown-kernel"
        return "unknown"
    return "other"


# ---------------------------------------------------------------- minimisation of a false `illegal`
def minimise_illegal(tool, harness, game, upto, timeout):
    """Shorten the game while the tool still says `illegal` for its final position: earliest prefix
    first, then greedy deletion of move blocks that leaves a legal game."""
    def verdict(moves):
        rc, out, err = sh([harness], input="FENS | %s\n" % " ".join(moves), timeout=60)
        fens = [l.split(" ", 2)[2] for l in out.split("\n") if l.startswith("P ")]
        if len(fens) != len(moves) + 1:
            return None, None
        r = run_filter_batch(tool, [fens[-1]], timeout)
        return fens[-1], (r[0][1] if r else None)

    moves = list(game.moves[:upto])
    # earliest prefix that is already judged illegal
    fens = game.fens[:upto + 1]
    res = run_filter_batch(tool, fens, timeout)
    for i, (fen, data, note) in enumerate(res):
        if data is not None and "illegal" in data:
            moves = moves[:i]
            break
    changed = True
    rounds = 0
    while changed and rounds < 6:
        changed = False
        rounds += 1
        for blk in (8, 4, 2, 1):
            i = 0
            while i + blk <= len(moves):
                cand = moves[:i] + moves[i + blk:]
                fen, data = verdict(cand)
                if fen is not None and data is not None and "illegal" in data:
                    moves = cand
                    changed = True
                else:
                    i += blk
    fen, data = verdict(moves)
    return moves, fen, data


# ---------------------------------------------------------------- piece-count correspondence
PCS = "0123456789abc"


def gen_board(rng, kind):
    """64 piece codes; kinds aim at the thresholds of the rules (pawns + excess around 8)."""
    cnt = [0] * 13
    if kind == 0:          # near the budget of each side
        for base in (0, 6):
            q = rng.choice([0, 1, 1, 1, 2, 3, 9])
            r = rng.choice([0, 1, 2, 2, 2, 3, 4, 10])
            b = rng.choice([0, 1, 2, 2, 2, 3, 4, 10])
            n = rng.choice([0, 1, 2, 2, 2, 3, 4, 10])
            ex = max(0, q - 1) + max(0, r - 2) + max(0, b - 2) + max(0, n - 2)
            p = max(0, min(12, 8 - ex + rng.choice([-2, -1, 0, 0, 0, 1, 1, 2])))
            cnt[base + 1] = rng.choice([1, 1, 1, 0, 2])
            cnt[base + 2], cnt[base + 3], cnt[base + 4], cnt[base + 5], cnt[base + 6] = q, r, b, n, p
        while sum(cnt) > 64:
            i = rng.randrange(1, 13)
            if cnt[i] > 0:
                cnt[i] -= 1
    elif kind == 1:        # anything
        for sq in range(rng.randint(0, 64)):
            cnt[rng.randrange(1, 13)] += 1
    else:                  # start position with a few edits
        board = list("3546154366666666" + "0" * 32 + "cccccccc9ab87ba9")
        for _ in range(rng.randint(0, 6)):
            board[rng.randrange(64)] = rng.choice(PCS)
        return "".join(board)
    cells = []
    for p in range(1, 13):
        cells += [PCS[p]] * cnt[p]
    cells += ["0"] * (64 - len(cells))
    rng.shuffle(cells)
    return "".join(cells[:64])


def board_of_fen(fen):
    rows = fen.split()[0].split("/")
    m = {"K": 1, "Q": 2, "R": 3, "B": 4, "N": 5, "P": 6, "k": 7, "q": 8, "r": 9, "b": 10, "n": 11, "p": 12}
    b = []
    for row in reversed(rows):
        for c in row:
            if c.isdigit():
                b += ["0"] * int(c)
            else:
                b.append(PCS[m[c]])
    return "".join(b)


# ---------------------------------------------------------------- the check
def run(ctx):
    ctx.rule = ("random legal games from the initial position (engine MoveGen; modes: uniform, pawn storm/promotions, castling kept, "
                "e.p.-seeking, rights-losing, ending on a check, and two modes directed at the proof-kernel search: cooperative promotions by "
                "capture and straight incl. under-promotions, file-changing pawns, pieces fed to pawns, bishops taken at home, with/without all castling rights), 1..150 plies, captures refused below 26 men (22 for a share of the directed games); the final position (and "
                "sampled prefix positions) go through the real `texelutil proofgame -f` (first stage) and, for a subset, the iterated "
                "`-f -o` mode up to a proof game; per game: distLowerBound(prefix -> final) for every prefix vs the game's own remaining "
                "length, blocked squares vs the game's own next move, forced last moves vs the game's own last moves; non-trivial = a "
                "game with >= 1 capture/promotion/castling/e.p. or >= 10 plies; distinct by final FEN")
    ctx.trusted_base = ["Coq 8.16.1 kernel (coqc, vm_compute)", "extraction (ExtrOcamlBasic only) + OCaml + drivers/pg_driver.ml",
                        "harness/pg_harness.cpp (game generator on the engine's MoveGen, SAN->coordinates by TextIO::stringToMove)",
                        "FIDE rules as written in coq/Chess/Spec.v (shared with C01)",
                        "coq/Chess/Fen.v reader (corresponded with TextIO::readFEN by C02) for the goal of the checker",
                        "props/c16.py parsing of the tool's output lines"]
    ctx.assumptions = ["games are generated with the engine's own move generator (C01 is about its correctness); every game is "
                       "additionally replayed by the certified checker over the FIDE specification",
                       "piece-count models = code by differential testing on random placements, not by proof"]
    ctx.notes["proved"] = ("C16_piece_counts / C16_promotion_budget (pawns + excess pieces <= 8 per side is an invariant of legal play, hence "
                           "validatePieceCounts and pieceCountsValid accept every reachable position), C16_enough_remaining (first rule of "
                           "distLowerBound never fires when the goal is reachable), C16_proofgame_checker (checker accepts iff legal play "
                           "from the initial position ends exactly in the goal), C16_kernel_abstraction_partial (non-pawn, non-castling moves are kernel steps)")
    ctx.notes["searched_only"] = ("admissibility of the distance heuristic (assignment problems, pawn cones, cut sets), blocked squares and deadlocks, "
                                  "proof-kernel and extended-kernel search incl. all pruning rules and caches, trapped bishops, last-move analysis, "
                                  "verdict assembly: no proof; random legal games are run through the real code and any `illegal` verdict, "
                                  "inadmissible bound, pruned witness move or wrong forced last move is reported with the game as replay")
    ctx.notes["known_finding_attribution"] = ("bound violations met in random games are attributed to finding A (castling) only when the continuation "
                                              "contains a castling move and the excess is <= %d plies, to finding B (en passant) only when the very next "
                                              "move of the game is an en-passant capture, and only while the fixed witness of that finding still fails and "
                                              "its key is a listed known finding; everything else is a VIOLATION" % CASTLE_SLACK)
    ctx.notes["kernel_abstraction"] = ("C16_kernel_abstraction_statement (every legal move is a kernel step of PG/Kernel.v, move kinds modelled from "
                                       "proofkernel.hpp) is a statement only; proved part C16_kernel_abstraction_partial: moves of pieces other than pawns "
                                       "(castling excluded) - quiet moves are stutters (bishops keep their square colour), captures are "
                                       "pieceXPiece / pieceXPawn kernel moves; pawn moves and castling are not proved")
    rng = ctx.rng
    t_start = time.time()

    # (1) regenerate the tables the shared chess model needs (owned by C02), before proving
    from props import c02
    pos_exe = cbuild.build_harness("pos_harness")
    c02.regenerate(pos_exe)

    # (3a) builds that do not need Coq, in the background of the proof build
    pool = ThreadPoolExecutor(max_workers=NCPU)
    f_harness = pool.submit(cbuild.build_harness, "pg_harness")
    f_tool = pool.submit(build_texelutil)

    # (2) prove
    ok, info = coqbuild.prove(ctx, PROP_FILE, extra_targets=["PG/PgDriver.vo"], timeout=ctx.scale(900, 3600))
    proof_broken = not ok
    if proof_broken:
        ctx.log("proof stage broken: %s" % (info.get("errors") or info.get("forbidden") or info.get("illegal_axioms")))
    ml = coqbuild.extract("ExtractPG.v", "pg_driver.ml", "pg_driver")
    harness = f_harness.result()
    tool = f_tool.result()
    ctx.log("builds ready after %.1fs" % (time.time() - t_start))

    problems = []          # (what, replay, key)

    # (4a) correspondence of the piece-count models on random (mostly unreachable) placements
    n_pc = ctx.scale(6000, 200000)
    boards = [gen_board(rng, rng.choice([0, 0, 0, 1, 2])) for _ in range(n_pc)]
    pairs = [(rng.choice(boards), rng.choice(boards)) for _ in range(n_pc // 2)]
    cpp_in = "".join("PCOUNT %s\n" % b for b in boards) + "".join("ENOUGH %s %s\n" % p for p in pairs)
    ml_in = "".join("V %s\n" % b for b in boards) + "".join("N %s %s\n" % p for p in pairs)
    rc1, o1, e1 = sh([harness], input=cpp_in, timeout=600)
    rc2, o2, e2 = sh([ml], input=ml_in, timeout=600)
    l1, l2 = o1.strip().split("\n"), o2.strip().split("\n")
    corr_bad = []
    if rc1 != 0 or rc2 != 0 or len(l1) != len(l2) or len(l1) != len(boards) + len(pairs):
        corr_bad.append(("piece-count streams differ in length / crashed", "rc=%d/%d %s %s" % (rc1, rc2, e1[-200:], e2[-200:])))
    else:
        inputs = boards + ["%s %s" % p for p in pairs]
        for inp, a, b in zip(inputs, l1, l2):
            ctx.evaluated()
            ctx.count("piececount_" + a.replace(" ", "_"))
            if a != b:
                corr_bad.append((inp, "code: %s model: %s" % (a, b)))
        ctx.sample({"board": boards[0], "code": l1[0], "model": l2[0]})
    ctx.count("piececount_placements", len(boards))
    ctx.count("enoughRemaining_pairs", len(pairs))

    # (4b) games
    n_games = ctx.scale(700, 5000)
    games = []
    if os.path.exists(CORPUS):
        for blk in open(CORPUS).read().split("\n"):
            blk = blk.strip()
            if blk and not blk.startswith("#"):
                games.append(Game(blk.split(), "-", -1, 0, 0))
        if games:
            rc, out, err = sh([harness], input="".join("FENS | %s\n" % " ".join(g.moves) for g in games), timeout=600)
            for g, b in zip(games, out.split("END\n")):
                g.fens = [l.split(" ", 2)[2] for l in b.strip().split("\n") if l.startswith("P ")]
            games = [g for g in games if g.fens and len(g.fens) == len(g.moves) + 1]
        ctx.count("corpus_games", len(games))
    tgames = [Game(mv, "-", 8, 0, 0) for mv in template_games(rng, ctx.scale(30, 300))]
    rc, out, err = sh([harness], input="".join("FENS | %s\n" % " ".join(g.moves) for g in tgames), timeout=600)
    for g, b in zip(tgames, out.split("END\n")):
        g.fens = [l.split(" ", 2)[2] for l in b.strip().split("\n") if l.startswith("P ")]
    ctx.count("template_games_generated", len(tgames))
    tgames = [g for g in tgames if g.fens and len(g.fens) == len(g.moves) + 1]
    ctx.count("template_games_legal", len(tgames))
    games += tgames
    games += gen_games(ctx, harness, n_games)
    seen = set()
    uniq = []
    for g in games:
        k = fen4(g.goal)
        if k not in seen:
            seen.add(k)
            uniq.append(g)
    games = uniq
    for g in games:
        ctx.count("games_mode_%d" % g.mode)
        for ch, name in (("p", "promotion"), ("c", "castled"), ("e", "ep_capture_played"), ("E", "final_has_ep_square"),
                         ("x", "final_raw_ep_dropped_by_fixup"), ("m", "final_is_mate"), ("s", "final_is_stalemate")):
            if ch in g.flags:
                ctx.count("games_with_" + name)
        cm = g.goal.split()[2]
        ctx.count("final_castling_" + ("none" if cm == "-" else "all" if cm == "KQkq" else "some"))
        if len(g.moves) >= 10 or set(g.flags) & set("pce"):
            ctx.nontrivial(fen4(g.goal))
        men = sum(1 for c in g.goal.split()[0] if c.isalpha())
        ctx.count("final_men_%d" % men)
        st = game_stats(g)
        nprom = st["prom_w"] + st["prom_b"]
        ncp = st["capprom_w"] + st["capprom_b"]
        ctx.count("final_promotions_%s" % ("2plus" if nprom >= 2 else nprom))
        ctx.count("final_capture_promotions_%s" % ("2plus" if ncp >= 2 else ncp))
        if st["prom_w"] and st["prom_b"]:
            ctx.count("final_both_sides_promoted")
        if st["capprom_w"] and st["capprom_b"]:
            ctx.count("final_both_sides_capture_promoted")
        if max(st["prom_w"], st["prom_b"]) >= 2:
            ctx.count("final_one_side_2plus_promotions")
        if st["under"]:
            ctx.count("final_with_underpromotion")
        for k in ("pxp", "pxpiece", "piecexp", "piecexpiece", "bishop_home"):
            ctx.count("captures_" + k, st[k])
        if st["bishop_home"]:
            ctx.count("final_bishop_captured_on_home_square")
        if st["bishop_imbalance_w"] or st["bishop_imbalance_b"]:
            ctx.count("final_dark_light_bishop_imbalance")
        if max(st["maxfile_w"], st["maxfile_b"]) >= 2:
            ctx.count("final_doubled_pawns")
        if max(st["maxfile_w"], st["maxfile_b"]) >= 3:
            ctx.count("final_tripled_pawns")
        if men < MIN_MEN:
            ctx.count("final_below_26_men")
    ctx.count("games", len(games))
    ctx.count("plies_total", sum(len(g.moves) for g in games))

    # (4c) every game is replayed by the certified checker (engine MoveGen vs FIDE specification), and
    #      mutated games are judged by checker and engine alike
    chk_in, eng_in, labels = [], [], []
    for gi, g in enumerate(games):
        if gi < ctx.scale(250, 5000):
            chk_in.append("C %s | %s" % (g.goal, " ".join(g.moves)))
            eng_in.append("REPLAY %s | %s" % (g.goal, " ".join(g.moves)))
            labels.append(("game", gi))
            if len(g.moves) >= 2:
                mv = list(g.moves)
                k = rng.randrange(4)
                if k == 0:
                    del mv[rng.randrange(len(mv))]
                elif k == 1:
                    i = rng.randrange(len(mv) - 1)
                    mv[i], mv[i + 1] = mv[i + 1], mv[i]
                elif k == 2:
                    mv = mv[:-1]
                else:
                    i = rng.randrange(len(mv))
                    mv[i] = mv[i][:2] + rng.choice("abcdefgh") + rng.choice("12345678")
                chk_in.append("C %s | %s" % (g.goal, " ".join(mv)))
                eng_in.append("REPLAY %s | %s" % (g.goal, " ".join(mv)))
                labels.append(("mutated", gi))

    def run_lines(exe, lines, nchunk=NCPU):
        chunks = [lines[i::nchunk] for i in range(nchunk)]
        outs = list(pool.map(lambda ch: sh([exe], input="\n".join(ch) + "\n", timeout=1800) if ch else (0, "", ""), chunks))
        res = [None] * len(lines)
        for ci, (rc, out, err) in enumerate(outs):
            ol = out.strip("\n").split("\n") if out.strip() else []
            for j, l in enumerate(ol):
                if ci + j * nchunk < len(lines):
                    res[ci + j * nchunk] = l
        return res
    chk_out = run_lines(ml, chk_in)
    eng_out = run_lines(harness, eng_in)
    for (kind, gi), a, b, inp in zip(labels, chk_out, eng_out, chk_in):
        ctx.evaluated()
        ca = (a or "?").split()[0]
        cb = (b or "? ?").split()[1] if b and b.startswith("R ") else "?"
        ctx.count("checker_%s_%s" % (kind, "accepted" if ca == "1" else "rejected"))
        if kind == "game" and ca != "1":
            problems.append(("the certified checker rejects a game played with the engine's legal moves (engine MoveGen vs FIDE specification, or checker)",
                             {"input": inp, "checker": a, "engine": b}, None))
        elif ca != cb:
            corr_bad.append((inp, "checker: %s engine replay: %s" % (a, b)))

    # known findings: fixed witnesses replayed on the real code
    castle_known = ep_known = False
    for name, wit, key, what in (
            ("castling", W_CASTLE, KEY_CASTLE, "the distance heuristic ignores castling: its lower bound exceeds the true remaining length "
             "(1.e4 e5 2.Nf3 Nc6 3.Bc4 Bc5 4.O-O: bound from the initial position %s > 7 plies); `texelutil proofgame` reports a non-minimal game as shortest"),
            ("enpassant", W_EP, KEY_EP, "the distance heuristic ignores en passant: the position before the capturing move gets bound %s for the "
             "goal reached by 3.exd6 e.p. (1.e4 a6 2.e5 d5) although one move reaches it; such nodes are pruned by the proof-game search")):
        rc, out, err = sh([harness], input="BOUNDS 1 | %s\n" % " ".join(wit), timeout=60)
        bad = None
        for l in out.split("\n"):
            t = l.split()
            if t and t[0] == "B" and int(t[2]) > len(wit) - int(t[1]):
                bad = (int(t[1]), int(t[2]))
                if name == "castling":
                    break
        if bad:
            ctx.violation(what % ("INT_MAX" if bad[1] >= INT_MAX else bad[1]),
                          {"moves": wit, "prefix": bad[0], "bound": bad[1], "true_remaining": len(wit) - bad[0]}, key=key)
            if ctx.kf.match(ctx.prop, key) is not None:
                if name == "castling":
                    castle_known = True
                else:
                    ep_known = True
        else:
            ctx.log("witness of finding '%s' no longer violates the bound contract (fixed in this tree?)" % name)
            ctx.count("finding_%s_not_reproduced" % name)

    ctx.log("checker vs engine replay done (%.1fs)" % (time.time() - t_start))
    # (5a) bounds / blocked squares / last moves per game (harness, real ProofGame code)
    def probe(g):
        mv = " ".join(g.moves)
        rc, out, err = sh([harness], input="BOUNDS 1 | %s\nLAST | %s\n" % (mv, mv), timeout=ctx.scale(40, 300))
        return rc, out, err
    probes = list(pool.map(probe, games))
    for g, (rc, out, err) in zip(games, probes):
        n = len(g.moves)
        if rc == 124:
            ctx.count("probe_timeouts")
        elif rc != 0:
            problems.append(("ProofGame code crashed on a legal game (exit %d)" % rc, {"moves": g.moves, "stderr": err[-400:]},
                             "crash:" + fen_key(g.goal)))
        worst = None
        unmove_miss = []
        ep_moves = ep_capture_indices(g)
        castle_idx = [j for j, m in enumerate(g.moves) if m in CASTLING_MOVES and g.fens[j].split()[0] != g.fens[j + 1].split()[0]
                      and is_king_move(g.fens[j], m)]
        for l in out.split("\n"):
            t = l.split()
            if not t:
                continue
            if t[0] == "B":
                i, b, bok, touch = int(t[1]), int(t[2]), t[3] == "1", t[4] == "1"
                ctx.evaluated()
                ctx.count("bounds_checked")
                rem = n - i
                if b == rem:
                    ctx.count("bounds_tight")
                if b > rem or not bok or touch:
                    what = ("distance heuristic says unreachable (INT_MAX)" if b >= INT_MAX else
                            "lower bound %d exceeds the true remaining length %d" % (b, rem) if b > rem else
                            "computeBlocked says unreachable" if not bok else
                            "the game's own next move touches a square declared blocked")
                    ncastle = sum(1 for j in castle_idx if j >= i)
                    if i in ep_moves and ep_known and bok and not touch:
                        ctx.count("bound_violations_attributed_to_known_finding_enpassant")
                    elif ncastle and castle_known and bok and not touch and b <= rem + CASTLE_SLACK:
                        ctx.count("bound_violations_attributed_to_known_finding_castling")
                        ctx.counts["castling_bound_max_excess_plies"] = max(ctx.counts.get("castling_bound_max_excess_plies", 0), b - rem)
                    else:
                        worst = (i, what, b)              # keep the latest (shortest remaining game)
            elif t[0] == "U":
                ctx.evaluated()
                ctx.count("real_last_move_among_unmoves_checked")
                if t[2] != "1":
                    i = int(t[1])
                    if not unmove_miss:
                        unmove_miss.append(i)
                        problems.append(("last-move analysis: the move that really led to a position is not among the reverse move generator's candidates",
                                         {"moves": g.moves[:i], "position": g.fens[i], "missing_last_move": g.moves[i - 1], "candidates": int(t[3])},
                                         "unmove:" + fen_key(g.fens[i]) + ":" + g.moves[i - 1]))
            elif t[0] == "X":
                problems.append(("ProofGame constructor rejects the final position of a legal game: " + " ".join(t[1:]),
                                 {"moves": g.moves, "goal": g.goal}, "ctor:" + fen_key(g.goal)))
            elif t[0] == "LX":
                problems.append(("last-move analysis declares a reachable position illegal: " + " ".join(t[1:]),
                                 {"moves": g.moves, "goal": g.goal}, "last:" + fen_key(g.goal)))
            elif t[0] == "L":
                k = int(t[1])
                ctx.count("lastmoves_analysed")
                if k > 0:
                    ctx.count("lastmoves_forced_games")
                    ctx.count("lastmoves_forced_moves", k)
                    forced = l.partition("|")[2].split()
                    red_goal = " ".join(t[2:6])
                    # the predecessor is determined up to an en-passant right that was not used (the analysis calls the
                    # reverse move generator with includeAllEpSquares=false)
                    pred = fen4(g.fens[n - k]) if k <= n else ""
                    same_pred = red_goal == pred or (red_goal.split()[:3] == pred.split()[:3] and red_goal.split()[3] == "-")
                    if not same_pred and k <= n:
                        ctx.count("lastmoves_predecessor_differs")
                    if k > n or forced != g.moves[n - k:] or not same_pred:
                        problems.append(("last-move analysis: moves declared forced differ from the game's own last moves (the real predecessor was rejected)",
                                         {"moves": g.moves, "goal": g.goal, "forced_by_tool": forced, "actual_last": g.moves[max(0, n - k):],
                                          "reduced_goal_by_tool": red_goal, "actual_predecessor": fen4(g.fens[max(0, n - k)])},
                                         "last:" + fen_key(g.goal)))
        if worst:
            i, what, b = worst
            problems.append(("distance heuristic / blocked squares: %s (prefix %d of %d)" % (what, i, n),
                             {"from_fen": g.fens[i], "goal_fen": g.goal, "remaining_moves": g.moves[i:], "bound": b, "all_moves": g.moves},
                             "bound:%s>%s" % (fen_key(g.fens[i])[4:], fen_key(g.goal)[4:])))
    ctx.log("bounds / blocked squares / last moves probed on %d games (%.1fs)" % (len(games), time.time() - t_start))

    # (5b) first stage of the real tool on final positions and sampled prefix positions
    light = []
    for gi, g in enumerate(games):
        light.append((gi, len(g.moves)))
        n = len(g.moves)
        for _ in range(ctx.scale(2, 6)):
            if n >= 2:
                light.append((gi, rng.randrange(1, n)))
    light = list(dict((fen4(games[gi].fens[i]), (gi, i)) for gi, i in light).values())
    per_pos = ctx.scale(4, 120)

    def men_of(fen):
        return sum(1 for c in fen.split()[0] if c.isalpha())
    low = [x for x in light if men_of(games[x[0]].fens[x[1]]) < MIN_MEN]
    light = [x for x in light if men_of(games[x[0]].fens[x[1]]) >= MIN_MEN] + low      # low-men positions last
    nl = len(light) - len(low)
    chunks = [light[:nl][i::NCPU * 3] for i in range(NCPU * 3)] + [low[i::NCPU] for i in range(NCPU)]
    chunk_low = [False] * (NCPU * 3) + [True] * NCPU
    keep = [i for i, c in enumerate(chunks) if c]
    chunks, chunk_low = [chunks[i] for i in keep], [chunk_low[i] for i in keep]
    variants = [(), ("-rndkernel", "-rnd", str(rng.randrange(1, 1 << 30)))]

    def light_run(ci_chunk):
        ci, ch = ci_chunk
        rnd = ci % 4 == 3 and not chunk_low[ci]
        lim = per_pos * 3 if chunk_low[ci] else per_pos / 2 if rnd else per_pos
        return run_filter_batch(tool, [games[gi].fens[i] for gi, i in ch], lim, extra=variants[1 if rnd else 0])
    light_res = list(pool.map(light_run, list(enumerate(chunks))))
    illegal_cases = []
    stage1_proofs = []
    for ci, (ch, res) in enumerate(zip(chunks, light_res)):
        for (gi, i), (fen, data, note) in zip(ch, res):
            ctx.evaluated()
            kind = verdict_kind(data)
            ctx.count("stage1_" + (kind if data is not None else ("timeout" if note == "timeout" else "crash")))
            if data is None and note == "timeout":
                ctx.count("stage1_timeout_" + ("below_26_men" if chunk_low[ci] else "rndkernel_variant" if ci % 4 == 3 else "default_order"))
            if data is not None and "kernel" in data:
                # which kernel-search stages actually ran for this position
                k = data["kernel"]
                ctx.count("stage1_proof_kernel_search_ran")
                ctx.count("stage1_proof_kernel_moves_%s" % (len(k) if len(k) < 7 else "7plus"))
                if any(m[1:2] == "P" and not m[-1].isdigit() for m in k):
                    ctx.count("stage1_proof_kernel_with_capture_promotion")
                if sum(1 for m in k if m[1:2] == "P" and not m[-1].isdigit()) >= 2:
                    ctx.count("stage1_proof_kernel_with_2plus_capture_promotions")
                if data.get("extKernel"):
                    ctx.count("stage1_ext_kernel_csp_ran")
                    if any(m[-1] in "QRBN" and "-" in m for m in data["extKernel"]):
                        ctx.count("stage1_ext_kernel_with_straight_promotion")
            if kind == "illegal" and data.get("illegal") in (["No", "proof", "kernel"], ["No", "extended", "proof", "kernel"]):
                ctx.count("stage1_proof_kernel_search_ran")
            if data is None and note != "timeout":
                problems.append(("texelutil proofgame -f crashed on a reachable position: " + note,
                                 {"fen": fen, "moves": games[gi].moves[:i]}, "crash:" + fen_key(fen)))
            if kind == "illegal":
                illegal_cases.append((gi, i, fen, data))
            if kind == "legal" and data.get("proof") is not None:
                stage1_proofs.append((fen, data["proof"]))
    ctx.count("stage1_positions", len(light))

    # (5c) iterated mode on a subset: proof games -> certified checker
    n_deep = ctx.scale(140, 1500)
    ctx.log("first stage of the tool on %d positions (%.1fs)" % (len(light), time.time() - t_start))
    deep_timeout = ctx.scale(10, 60)
    order = list(range(len(games)))
    rng.shuffle(order)
    # prefer variety: games with special moves first
    def variety(gi):
        st = game_stats(games[gi])
        return -(len(set(games[gi].flags) & set("pceEm")) + 2 * min(2, st["capprom_w"] + st["capprom_b"]) +
                 (2 if st["capprom_w"] and st["capprom_b"] else 0) + min(2, st["prom_w"] + st["prom_b"]))
    order.sort(key=variety)
    deep = order[:n_deep]
    workdir = tempfile.mkdtemp(prefix="c16-", dir=os.path.join(CACHE))
    try:
        t0 = time.time()
        budget = ctx.scale(75, 3600)

        def deep_run(gi):
            if time.time() - t0 > budget:
                return None, -1, "skipped (time budget)", 0.0
            return run_deep(tool, games[gi].goal, workdir, gi, deep_timeout)
        deep_res = list(pool.map(deep_run, deep))
    finally:
        shutil.rmtree(workdir, ignore_errors=True)
    ctx.log("iterated mode on %d positions (%.1fs)" % (len(deep), time.time() - t_start))
    proofs = [(fen, p) for fen, p in stage1_proofs]
    for gi, (data, rc, err, dt) in zip(deep, deep_res):
        g = games[gi]
        if rc == -1:
            ctx.count("deep_skipped_time_budget")
            continue
        ctx.evaluated()
        kind = verdict_kind(data)
        ctx.count("deep_" + kind + ("_timeout" if rc == 124 and kind != "legal" else ""))
        if kind == "unknown-fail":
            ctx.count("deep_unknown-fail_info_" + "_".join(data.get("info", ["-"]))[:60])
        if rc not in (0, 124):
            problems.append(("texelutil proofgame -f -o crashed on a reachable position (exit %d): %s" % (rc, err[-300:].replace("\n", " | ")),
                             {"fen": g.goal, "moves": g.moves}, "crash:" + fen_key(g.goal)))
        if kind == "illegal":
            illegal_cases.append((gi, len(g.moves), g.goal, data))
        if kind == "legal":
            proofs.append((g.goal, data["proof"]))
            ctx.count("deep_proof_shorter_than_game" if len(data["proof"]) < len(g.moves) else
                      "deep_proof_same_length_as_game" if len(data["proof"]) == len(g.moves) else "deep_proof_longer_than_game")
    # proofs through SAN conversion (real TextIO) and the certified checker
    if proofs:
        san_out = run_lines(harness, ["SAN " + " ".join(p) for _, p in proofs])
        cin, cidx = [], []
        for (goal, p), so in zip(proofs, san_out):
            if not so or not so.startswith("U"):
                problems.append(("a proof game printed by the tool is not readable as moves by TextIO: %s" % so,
                                 {"goal": goal, "proof_san": p}, "proof:" + fen_key(goal)))
                continue
            cin.append("C %s | %s" % (goal, so[1:].strip()))
            cidx.append((goal, p))
        cout = run_lines(ml, cin)
        for (goal, p), inp, o in zip(cidx, cin, cout):
            ctx.evaluated()
            ctx.traces_validated += 1
            ctx.count("proofgames_checked")
            ctx.count("proofgame_plies_total", len(p))
            if o != "1":
                problems.append(("a proof game printed by the tool is rejected by the certified checker (%s)" % o,
                                 {"goal": goal, "proof_san": p, "checker_input": inp, "checker": o},
                                 "proof:" + fen_key(goal)))
            elif len(p) > 4 and len(ctx.samples) < 5:
                ctx.sample({"goal": goal, "tool_proof_plies": len(p), "tool_proof_start": " ".join(p[:8]) + " ...", "checker": o})

    # false `illegal` verdicts: minimise and report
    seen_keys = set()
    for gi, i, fen, data in illegal_cases[:8]:
        g = games[gi]
        moves, mfen, mdata = minimise_illegal(tool, harness, g, i, per_pos)
        if mfen is None or mdata is None or "illegal" not in mdata:
            moves, mfen, mdata = g.moves[:i], fen, data
        key = "illegal:" + fen_key(mfen)
        if key in seen_keys:
            continue
        seen_keys.add(key)
        problems.append(("the tool declares a reachable position illegal: `illegal: %s`%s" %
                         (" ".join(mdata.get("illegal", [])), (" forced: " + " ".join(mdata["forced"])) if mdata.get("forced") else ""),
                         {"minimised_game": moves, "final_fen": mfen, "verdict": mdata, "original_game": g.moves[:i], "original_fen": fen,
                          "original_verdict": data}, key))
        try:
            if REPO != "/repo":
                raise OSError("scratch tree: corpus untouched")
            with open(CORPUS, "a") as f:
                f.write("# seed %d: illegal verdict on a reachable position\n%s\n" % (ctx.seed, " ".join(moves)))
        except OSError:
            pass
    ctx.count("illegal_verdicts_on_reachable_positions", len(illegal_cases))
    pool.shutdown(wait=False)

    # ---------------------------------------------------------------- verdict
    per_cat = {}
    for what, replay, key in problems:
        cat = (key or what).split(":")[0]
        per_cat[cat] = per_cat.get(cat, 0) + 1
    shown = {}
    for what, replay, key in problems:
        cat = (key or what).split(":")[0]
        shown[cat] = shown.get(cat, 0) + 1
        if shown[cat] <= 3:                      # at most three replays per kind of failure; the total is recorded
            if isinstance(replay, dict):
                replay = dict(replay, failures_of_this_kind_on_this_run=per_cat[cat])
            ctx.violation(what, replay, key=key)
    for cat, n in per_cat.items():
        ctx.count("failures_" + cat, n)
    if corr_bad:
        inp, diff = corr_bad[0]
        # finder for a broken piece-count correspondence: the code against the proved invariant on
        # positions of legal games (reachable => must be accepted)
        fails = []
        rc, out, err = sh([harness], input="".join("PCOUNT %s\n" % board_of_fen(f) for g in games[:400] for f in g.fens[::5]), timeout=600)
        allf = [f for g in games[:400] for f in g.fens[::5]]
        for f, l in zip(allf, out.strip().split("\n")):
            if l != "V 0 1":
                fails.append((f, l))
        replay = {"disagreement": {"input": inp, "diff": diff, "count": len(corr_bad)}}
        if fails:
            replay["failing_input"] = {"fen": fails[0][0], "code": fails[0][1], "expected": "V 0 1 (C16_piece_counts: reachable positions are accepted)"}
            ctx.violation("piece-count rule rejects a reachable position (contradicts the proved invariant)", replay, key="pcount:" + fen_key(fails[0][0]))
        else:
            ctx.violation("correspondence model/implementation broken (piece-count rules or checker vs engine replay)", replay, no_failing_input=True)
    if proof_broken:
        ctx.violation("theorem(s) in %s no longer check" % PROP_FILE, {"broken_proof": info}, no_failing_input=True)


def replay(ctx, body):
    r = body.get("replay", {})
    harness = cbuild.build_harness("pg_harness")
    tool = build_texelutil()
    moves = r.get("minimised_game") or r.get("moves") or r.get("all_moves")
    if moves is not None:
        rc, out, err = sh([harness], input="FENS | %s\n" % " ".join(moves), timeout=60)
        fens = [l.split(" ", 2)[2] for l in out.split("\n") if l.startswith("P ")]
        print("game:", " ".join(moves))
        print("final position:", fens[-1] if fens else out)
        if fens:
            for fen, data, note in run_filter_batch(tool, [fens[-1]], 120):
                print("texelutil proofgame -f:", data, note)
            rc, out, err = sh([harness], input="BOUNDS 1 | %s\nLAST | %s\n" % (" ".join(moves), " ".join(moves)), timeout=300)
            n = len(moves)
            for l in out.split("\n"):
                t = l.split()
                if t and t[0] == "B" and (int(t[2]) > n - int(t[1]) or t[3] != "1" or t[4] != "0"):
                    print("prefix %s: bound %s, remaining %d, blockedOk %s, witness move touches blocked %s" % (t[1], t[2], n - int(t[1]), t[3], t[4]))
                elif t and t[0] in ("L", "LX", "X"):
                    print(l)
    if "proof_san" in r:
        print("tool's proof:", " ".join(r["proof_san"]), "\nchecker:", r.get("checker"))
