#!/usr/bin/env python3
"""Translator for C19 (book-builder graph): regenerates coq/gen/BookConsts.v from the CURRENT
source text of /repo (or $VERIF_REPO):

  lib/texellib/constants.hpp      MATE0, UNKNOWN_SCORE, isWinScore, isLoseScore
  lib/texelutillib/bookbuild.hpp  IGNORE_SCORE, INVALID_SCORE, default cost parameters of Book,
                                  BookSerializeData size, order + C++ types of the serialized fields
  lib/texelutillib/bookbuild.cpp  BookNode::negateScore (translated statement by statement),
                                  the literals used by getExpansionCost (obsolete-move cost, move
                                  error used when the negamax score is invalid)
  lib/texellib/move.hpp           Move::getCompressedMove shifts

Only a tiny C++ subset is understood (integer constants, + - unary-, / (truncating), comparisons,
|| &&, calls of the two SearchConst predicates, `if (c) return e;` chains).  Anything else raises
TranslateError ("translator cannot handle ..."), which the check reports as a broken tie.

Usage: c19_consts.py [out.v]   (default /verif/coq/gen/BookConsts.v); the file is rewritten only
when its content changes (keeps Coq builds incremental).
"""
import os
import re
import sys

REPO = os.environ.get("VERIF_REPO", "/repo")
VERIF = os.path.dirname(os.path.dirname(os.path.abspath(__file__)))


class TranslateError(Exception):
    pass


def read(rel):
    with open(os.path.join(REPO, rel)) as f:
        return f.read()


def strip_comments(s):
    s = re.sub(r"/\*.*?\*/", " ", s, flags=re.S)
    s = re.sub(r"//[^\n]*", " ", s)
    return s


# ---------------------------------------------------------------- tokenizer / expression parser
TOK = re.compile(r"\s*(?:(\d+)|([A-Za-z_][A-Za-z_0-9]*(?:::[A-Za-z_][A-Za-z_0-9]*)*)|(==|!=|<=|>=|\|\||&&|<<|>>|[-+*/()<>;!{},?:]))")


def tokenize(s):
    out = []
    i = 0
    s = s.strip()
    while i < len(s):
        m = TOK.match(s, i)
        if not m:
            raise TranslateError("translator cannot handle text at: %r" % s[i:i + 30])
        if m.group(1) is not None:
            out.append(("int", int(m.group(1))))
        elif m.group(2) is not None:
            out.append(("id", m.group(2)))
        else:
            out.append(("op", m.group(3)))
        i = m.end()
    return out


class Parser:
    """Produces Gallina text.  `env` maps C++ identifiers to Gallina identifiers; `funs` maps C++
    predicate names to Gallina function names.  Integer expressions are Z, conditions bool."""

    def __init__(self, toks, env, funs):
        self.t = toks
        self.i = 0
        self.env = env
        self.funs = funs

    def peek(self):
        return self.t[self.i] if self.i < len(self.t) else ("eof", None)

    def next(self):
        x = self.peek()
        self.i += 1
        return x

    def expect(self, kind, val=None):
        k, v = self.next()
        if k != kind or (val is not None and v != val):
            raise TranslateError("translator cannot handle: expected %s %s, got %s %s" % (kind, val, k, v))
        return v

    # conditions
    def cond(self):
        a = self.cand()
        while self.peek() == ("op", "||"):
            self.next()
            b = self.cand()
            a = "(orb %s %s)" % (a, b)
        return a

    def cand(self):
        a = self.crel()
        while self.peek() == ("op", "&&"):
            self.next()
            b = self.crel()
            a = "(andb %s %s)" % (a, b)
        return a

    def crel(self):
        k, v = self.peek()
        if k == "op" and v == "!":
            self.next()
            return "(negb %s)" % self.crel()
        if k == "id" and v in self.funs:
            self.next()
            self.expect("op", "(")
            e = self.expr()
            self.expect("op", ")")
            return "(%s %s)" % (self.funs[v], e)
        save = self.i
        if k == "op" and v == "(":
            # could be a parenthesised condition or a parenthesised integer expression
            try:
                self.next()
                c = self.cond()
                self.expect("op", ")")
                if self.peek()[1] not in ("==", "!=", "<", ">", "<=", ">=", "+", "-", "*", "/"):
                    return c
            except TranslateError:
                pass
            self.i = save
        a = self.expr()
        k, v = self.next()
        ops = {"==": "=?", "!=": None, "<": "<?", ">": ">?", "<=": "<=?", ">=": ">=?"}
        if k != "op" or v not in ops:
            raise TranslateError("translator cannot handle comparison operator %s" % v)
        b = self.expr()
        if v == "!=":
            return "(negb (%s =? %s))" % (a, b)
        return "(%s %s %s)" % (a, ops[v], b)

    # integer expressions
    def expr(self):
        a = self.term()
        while self.peek() in (("op", "+"), ("op", "-")):
            _, o = self.next()
            b = self.term()
            a = "(%s %s %s)" % (a, o, b)
        return a

    def term(self):
        a = self.unary()
        while self.peek() in (("op", "*"), ("op", "/")):
            _, o = self.next()
            b = self.unary()
            a = "(%s * %s)" % (a, b) if o == "*" else "(Z.quot %s %s)" % (a, b)
        return a

    def unary(self):
        k, v = self.peek()
        if k == "op" and v == "-":
            self.next()
            return "(- %s)" % self.unary()
        if k == "op" and v == "(":
            self.next()
            e = self.expr()
            self.expect("op", ")")
            return e
        if k == "int":
            self.next()
            return "%d" % v
        if k == "id":
            self.next()
            if v not in self.env:
                raise TranslateError("translator cannot handle identifier %s" % v)
            return self.env[v]
        raise TranslateError("translator cannot handle token %s %s" % (k, v))


def function_body(src, header_re):
    m = re.search(header_re, src)
    if not m:
        raise TranslateError("translator cannot find %s" % header_re)
    i = src.index("{", m.end() - 1)
    depth = 0
    j = i
    while True:
        if src[j] == "{":
            depth += 1
        elif src[j] == "}":
            depth -= 1
            if depth == 0:
                break
        j += 1
    return src[i + 1:j]


def translate_return_chain(body, env, funs, as_bool=False):
    """`if (c) return e; ... return e;`  ->  nested Gallina if."""
    toks = tokenize(body)
    p = Parser(toks, env, funs)
    clauses = []
    while True:
        k, v = p.peek()
        if k == "id" and v == "if":
            p.next()
            p.expect("op", "(")
            c = p.cond()
            p.expect("op", ")")
            p.expect("id", "return")
            e = p.cond() if as_bool else p.expr()
            p.expect("op", ";")
            clauses.append((c, e))
        elif k == "id" and v == "return":
            p.next()
            e = p.cond() if as_bool else p.expr()
            p.expect("op", ";")
            if p.peek()[0] != "eof":
                raise TranslateError("translator cannot handle code after final return")
            out = e
            for c, e2 in reversed(clauses):
                out = "if %s then %s else %s" % (c, e2, out)
            return out
        else:
            raise TranslateError("translator cannot handle statement starting with %s %s" % (k, v))


def const_int(src, name, env):
    m = re.search(r"const\s+int\s+%s\s*=\s*([^;]+);" % re.escape(name), src)
    if not m:
        raise TranslateError("translator cannot find constant %s" % name)
    p = Parser(tokenize(m.group(1)), env, {})
    e = p.expr()
    if p.peek()[0] != "eof":
        raise TranslateError("translator cannot handle initialiser of %s" % name)
    return e


CTYPES = {"U64": (8, False), "S64": (8, True), "U32": (4, False), "S32": (4, True), "int": (4, True),
          "U16": (2, False), "S16": (2, True), "U8": (1, False), "S8": (1, True)}


def generate():
    consts = strip_comments(read("lib/texellib/constants.hpp"))
    hpp = strip_comments(read("lib/texelutillib/bookbuild.hpp"))
    cpp = strip_comments(read("lib/texelutillib/bookbuild.cpp"))
    mv = strip_comments(read("lib/texellib/move.hpp"))
    out = []
    out.append("(** GENERATED by tx/c19_consts.py from the current /repo sources -- do not edit. *)")
    out.append("From Coq Require Import ZArith NArith List Bool.")
    out.append("Import ListNotations.")
    out.append("Local Open Scope Z_scope.")
    out.append("")
    env = {}
    for name in ("MATE0", "UNKNOWN_SCORE"):
        e = const_int(consts, name, env)
        out.append("Definition %s : Z := %s." % (name, e))
        env[name] = name
        env["SearchConst::" + name] = name
    for fn in ("isWinScore", "isLoseScore"):
        body = function_body(consts, r"inline\s+bool\s+%s\s*\(\s*int\s+score\s*\)\s*\{" % fn)
        e = translate_return_chain(body, dict(env, score="score"), {}, as_bool=True)
        out.append("Definition %s (score : Z) : bool := %s." % (fn, e))
    for name in ("IGNORE_SCORE", "INVALID_SCORE"):
        e = const_int(hpp, name, env)
        out.append("Definition %s : Z := %s." % (name, e))
        env[name] = name
    funs = {"SearchConst::isWinScore": "isWinScore", "SearchConst::isLoseScore": "isLoseScore",
            "isWinScore": "isWinScore", "isLoseScore": "isLoseScore"}
    body = function_body(cpp, r"BookNode::negateScore\s*\(\s*int\s+score\s*\)\s*\{")
    e = translate_return_chain(body, dict(env, score="score"), funs)
    out.append("Definition negateScore (score : Z) : Z := %s." % e)
    # literals of getExpansionCost
    body = function_body(cpp, r"BookNode::getExpansionCost\s*\([^)]*\)\s*const\s*\{")
    m = re.search(r"negaMaxScore\s*==\s*INVALID_SCORE\s*\)\s*\?\s*(-?\d+)\s*:", body)
    if not m:
        raise TranslateError("translator cannot find the invalid-negamax move error literal")
    out.append("Definition INVALID_MOVE_ERROR : Z := %s." % m.group(1))
    m = re.search(r"return\s+(-?\s*\d+)\s*;", body)
    if not m:
        raise TranslateError("translator cannot find the obsolete-move cost literal")
    out.append("Definition OBSOLETE_COST : Z := %s." % m.group(1).replace(" ", ""))
    # Book constructor defaults
    m = re.search(r"Book\s*\(\s*const\s+std::string&\s+backupFile\s*,\s*int\s+bookDepthCost\s*=\s*(\d+)\s*,"
                  r"\s*int\s+ownPathErrorCost\s*=\s*(\d+)\s*,\s*int\s+otherPathErrorCost\s*=\s*(\d+)\s*\)", hpp)
    if not m:
        raise TranslateError("translator cannot find the Book constructor defaults")
    out.append("Definition DEFAULT_DEPTH_COST : Z := %s." % m.group(1))
    out.append("Definition DEFAULT_OWN_COST : Z := %s." % m.group(2))
    out.append("Definition DEFAULT_OTHER_COST : Z := %s." % m.group(3))
    # serialisation layout
    m = re.search(r"struct\s+BookSerializeData\s*\{\s*U8\s+data\s*\[\s*(\d+)\s*\]\s*;", hpp)
    if not m:
        raise TranslateError("translator cannot find BookSerializeData")
    out.append("Definition SERIALIZED_SIZE : nat := %s." % m.group(1))
    body = function_body(hpp, r"BookNode::serialize\s*\(\s*BookSerializeData&\s+bsd\s*\)\s*const\s*\{")
    m = re.search(r"Serializer::serialize<\s*sizeof\(bsd\.data\)\s*>\s*\(\s*bsd\.data\s*,([^)]*)\)", body)
    if not m:
        raise TranslateError("translator cannot find the Serializer::serialize call")
    fields = [f.strip() for f in m.group(1).split(",")]
    body_de = function_body(hpp, r"BookNode::deSerialize\s*\(\s*const\s+BookSerializeData&\s+bsd\s*\)\s*\{")
    m2 = re.search(r"Serializer::deSerialize<\s*sizeof\(bsd\.data\)\s*>\s*\(\s*bsd\.data\s*,([^)]*)\)", body_de)
    if not m2 or [f.strip() for f in m2.group(1).split(",")] != fields:
        raise TranslateError("translator: serialize and deSerialize field lists differ")
    layout = []
    for f in fields:
        mt = re.search(r"\b(U64|S64|U32|S32|U16|S16|U8|S8|int)\s+%s\s*(?:;|=)" % re.escape(f), body + "\n" + hpp)
        if not mt:
            raise TranslateError("translator cannot find the C++ type of serialized field %s" % f)
        layout.append((f, CTYPES[mt.group(1)]))
    out.append("(* serialized fields in order: %s *)" % ", ".join("%s:%d%s" % (f, s, "s" if sg else "u") for f, (s, sg) in layout))
    out.append("Definition SERIALIZE_FIELDS : list (nat * bool) := [%s]." %
               "; ".join("(%d%%nat, %s)" % (s, "true" if sg else "false") for _, (s, sg) in layout))
    out.append("Definition SERIALIZE_NAMES_OK : bool := %s." %
               ("true" if fields == ["hashKey", "move", "searchScore", "searchTime"] else "false"))
    # compressed move
    body = function_body(mv, r"Move::getCompressedMove\s*\(\s*\)\s*const\s*\{")
    m = re.search(r"from\(\)\.asInt\(\)\s*\+\s*\(\s*to\(\)\.asInt\(\)\s*<<\s*(\d+)\s*\)\s*\+\s*\(\s*promoteTo\(\)\s*<<\s*(\d+)\s*\)", body)
    if not m:
        raise TranslateError("translator cannot handle Move::getCompressedMove")
    out.append("Definition MOVE_TO_SHIFT : N := %s%%N." % m.group(1))
    out.append("Definition MOVE_PROMOTE_SHIFT : N := %s%%N." % m.group(2))
    out.append("Definition INT_MAX : Z := 2147483647.")
    return "\n".join(out) + "\n"


def main():
    dst = sys.argv[1] if len(sys.argv) > 1 else os.path.join(VERIF, "coq", "gen", "BookConsts.v")
    txt = generate()
    os.makedirs(os.path.dirname(dst), exist_ok=True)
    old = open(dst).read() if os.path.exists(dst) else None
    if old != txt:
        tmp = dst + ".tmp%d" % os.getpid()
        with open(tmp, "w") as f:
            f.write(txt)
        os.rename(tmp, dst)
        print("c19_consts: wrote %s" % dst)
    else:
        print("c19_consts: %s unchanged" % dst)


if __name__ == "__main__":
    try:
        main()
    except TranslateError as ex:
        print("TRANSLATOR-REFUSAL: %s" % ex)
        sys.exit(3)
