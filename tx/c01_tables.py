#!/usr/bin/env python3
"""Translator for C01: re-extracts the literal constants and tables of
lib/texellib/bitBoard.{hpp,cpp} (masks, magic numbers, shift counts, dirTable, de-Bruijn
tables and multipliers) and the castle bit numbers of position.hpp from the C++ text of the
*current* /repo tree and writes coq/gen/BitBoardTables.v.

Only literal initialisers are understood (integer literals, `64-12` style differences of two
literals, unary minus).  Anything else aborts with TranslateError: a broken tie, never a
silently skipped definition.  The output file is rewritten only when its content changes."""
import os
import re
import sys


class TranslateError(Exception):
    pass


def strip_comments(txt):
    txt = re.sub(r"/\*.*?\*/", lambda m: "\n" * m.group(0).count("\n"), txt, flags=re.S)
    txt = re.sub(r"//[^\n]*", "", txt)
    return txt


INT_RE = re.compile(r"^(0[xX][0-9a-fA-F]+|[0-9]+)(ULL|ull|UL|ul|LL|ll|U|u|L|l)?$")


def parse_int(tok, what):
    m = INT_RE.match(tok.strip())
    if not m:
        raise TranslateError("translator cannot handle %r in %s" % (tok, what))
    return int(m.group(1), 0)


def parse_expr(e, what):
    """literal | -literal | literal - literal | literal + literal"""
    e = e.strip()
    if not e:
        raise TranslateError("empty expression in %s" % what)
    m = re.match(r"^(-?)\s*([0-9a-fA-FxXuUlL]+)\s*(?:([-+])\s*([0-9a-fA-FxXuUlL]+))?$", e)
    if not m:
        raise TranslateError("translator cannot handle %r in %s" % (e, what))
    v = parse_int(m.group(2), what)
    if m.group(1):
        v = -v
    if m.group(3):
        w = parse_int(m.group(4), what)
        v = v - w if m.group(3) == "-" else v + w
    return v


def find_init_list(txt, decl_re, what, count=None):
    m = re.search(decl_re + r"\s*=\s*\{(.*?)\}\s*;", txt, flags=re.S)
    if not m:
        raise TranslateError("cannot find initialiser list of %s" % what)
    body = m.group(1)
    if "{" in body or "(" in body:
        raise TranslateError("nested/complex initialiser in %s" % what)
    items = [x for x in (s.strip() for s in body.split(",")) if x != ""]
    vals = [parse_expr(x, what) for x in items]
    if count is not None and len(vals) != count:
        raise TranslateError("%s: expected %d entries, found %d" % (what, count, len(vals)))
    return vals


def find_const(txt, name, what, typ=r"U64"):
    ms = re.findall(r"static\s+const\s+" + typ + r"\s+" + name + r"\s*=\s*([^;]+);", txt)
    if len(ms) != 1:
        raise TranslateError("cannot find unique constant %s (%s): %d matches" % (name, what, len(ms)))
    return parse_expr(ms[0], what + ":" + name)


def function_body(txt, header_re, what):
    m = re.search(header_re, txt)
    if not m:
        raise TranslateError("cannot find function %s" % what)
    i = txt.index("{", m.end() - 1) if txt[m.end() - 1] != "{" else m.end() - 1
    depth = 0
    j = i
    while j < len(txt):
        if txt[j] == "{":
            depth += 1
        elif txt[j] == "}":
            depth -= 1
            if depth == 0:
                return txt[i:j + 1]
        j += 1
    raise TranslateError("unbalanced braces in %s" % what)


def non_intrinsic_branch(body, macro, what):
    """the #else branch of  #ifdef <macro> ... #else ... #endif  (outermost for that macro)"""
    lines = body.split("\n")
    out = []
    depth = 0
    state = None      # None outside, "if" in the macro's #if part, "else" in its else part
    mydepth = None
    for ln in lines:
        s = ln.strip()
        if s.startswith("#if"):
            depth += 1
            if state is None and re.match(r"#ifdef\s+" + macro + r"\b", s):
                state = "if"
                mydepth = depth
                continue
        elif s.startswith("#else"):
            if state == "if" and depth == mydepth:
                state = "else"
                continue
        elif s.startswith("#endif"):
            if state is not None and depth == mydepth:
                state = None
                depth -= 1
                continue
            depth -= 1
        if state == "else" or state is None:
            out.append(ln)
    return "\n".join(out)


def translate(repo):
    hpp_path = os.path.join(repo, "lib", "texellib", "bitBoard.hpp")
    cpp_path = os.path.join(repo, "lib", "texellib", "bitBoard.cpp")
    pos_path = os.path.join(repo, "lib", "texellib", "position.hpp")
    hpp = strip_comments(open(hpp_path).read())
    cpp = strip_comments(open(cpp_path).read())
    pos = strip_comments(open(pos_path).read())
    defs = []      # (name, type, value) value: int or list

    for n in ["maskFileA", "maskFileB", "maskFileC", "maskFileD", "maskFileE", "maskFileF", "maskFileG", "maskFileH",
              "maskAToGFiles", "maskBToHFiles", "maskAToFFiles", "maskCToHFiles", "maskAToDFiles", "maskEToHFiles",
              "maskRow1", "maskRow2", "maskRow3", "maskRow4", "maskRow5", "maskRow6", "maskRow7", "maskRow8",
              "maskRow1Row8", "maskDarkSq", "maskLightSq", "maskCorners"]:
        v = find_const(hpp, n, "bitBoard.hpp")
        if not (0 <= v < 2 ** 64):
            raise TranslateError("%s out of U64 range" % n)
        defs.append((n, "N", v))
    defs.append(("maskFile", "list N", find_init_list(cpp, r"const\s+U64\s+BitBoard::maskFile\s*\[\s*8\s*\]", "maskFile", 8)))
    rbits = find_init_list(cpp, r"const\s+SqTbl<int>\s+BitBoard::rBits", "rBits", 64)
    rmag = find_init_list(cpp, r"const\s+SqTbl<U64>\s+BitBoard::rMagics", "rMagics", 64)
    bbits = find_init_list(cpp, r"const\s+SqTbl<int>\s+BitBoard::bBits", "bBits", 64)
    bmag = find_init_list(cpp, r"const\s+SqTbl<U64>\s+BitBoard::bMagics", "bMagics", 64)
    for nm, l in (("rBits", rbits), ("bBits", bbits)):
        if any(not (0 <= x <= 64) for x in l):
            raise TranslateError("%s entry out of range" % nm)
    for nm, l in (("rMagics", rmag), ("bMagics", bmag)):
        if any(not (0 <= x < 2 ** 64) for x in l):
            raise TranslateError("%s entry out of range" % nm)
    defs += [("rBits", "list N", rbits), ("rMagics", "list N", rmag), ("bBits", "list N", bbits), ("bMagics", "list N", bmag)]
    dirt = find_init_list(cpp, r"const\s+S8\s+BitBoard::dirTable\s*\[\s*\]", "dirTable")
    if any(not (-128 <= x <= 127) for x in dirt):
        raise TranslateError("dirTable entry outside S8")
    defs.append(("dirTable", "list Z", dirt))
    defs.append(("trailingZ", "list N", find_init_list(cpp, r"const\s+int\s+BitUtil::trailingZ\s*\[\s*64\s*\]", "trailingZ", 64)))
    defs.append(("lastBitTable", "list N", find_init_list(cpp, r"const\s+int\s+BitUtil::lastBitTable\s*\[\s*64\s*\]", "lastBitTable", 64)))

    # de-Bruijn multipliers and shift of the table-based (non-intrinsic) branches
    fb = non_intrinsic_branch(function_body(hpp, r"BitUtil::firstBit\s*\(\s*U64\s+mask\s*\)\s*\{", "BitUtil::firstBit"), "USE_CTZ", "firstBit")
    m = re.search(r"return\s+trailingZ\s*\[\s*\(int\)\s*\(\s*\(\s*\(\s*mask\s*&\s*-\s*mask\s*\)\s*\*\s*(\w+)\s*\)\s*>>\s*(\w+)\s*\)\s*\]\s*;", fb)
    if not m:
        raise TranslateError("BitUtil::firstBit: table branch has an unexpected shape:\n" + fb)
    defs.append(("firstBitMul", "N", parse_int(m.group(1), "firstBit multiplier")))
    defs.append(("firstBitShift", "N", parse_int(m.group(2), "firstBit shift")))
    lb = non_intrinsic_branch(function_body(hpp, r"BitUtil::lastBit\s*\(\s*U64\s+mask\s*\)\s*\{", "BitUtil::lastBit"), "USE_CTZ", "lastBit")
    fills = re.findall(r"mask\s*\|=\s*mask\s*>>\s*(\w+)\s*;", lb)
    m = re.search(r"return\s+lastBitTable\s*\[\s*\(\s*mask\s*\*\s*(\w+)\s*\)\s*>>\s*(\w+)\s*\]\s*;", lb)
    if not m or not fills:
        raise TranslateError("BitUtil::lastBit: table branch has an unexpected shape:\n" + lb)
    stmts = [s.strip() for s in lb.strip().strip("{}").split(";") if s.strip()]
    if len(stmts) != len(fills) + 1:
        raise TranslateError("BitUtil::lastBit: unexpected extra statements: %r" % stmts)
    defs.append(("lastBitFills", "list N", [parse_int(x, "lastBit fill shift") for x in fills]))
    defs.append(("lastBitMul", "N", parse_int(m.group(1), "lastBit multiplier")))
    defs.append(("lastBitShift", "N", parse_int(m.group(2), "lastBit shift")))

    # getDirection: offs = to + (to|7) - from - (from|7) + 0x77
    gd = function_body(hpp, r"BitBoard::getDirection\s*\(\s*Square\s+fromS\s*,\s*Square\s+toS\s*\)\s*\{", "BitBoard::getDirection")
    m = re.search(r"int\s+offs\s*=\s*to\s*\+\s*\(\s*to\s*\|\s*(\w+)\s*\)\s*-\s*from\s*-\s*\(\s*from\s*\|\s*(\w+)\s*\)\s*\+\s*(\w+)\s*;\s*return\s+dirTable\s*\[\s*offs\s*\]\s*;", gd)
    if not m or m.group(1) != m.group(2):
        raise TranslateError("BitBoard::getDirection has an unexpected shape:\n" + gd)
    defs.append(("dirOrMask", "N", parse_int(m.group(1), "getDirection or-mask")))
    defs.append(("dirOffset", "Z", parse_int(m.group(3), "getDirection offset")))

    # wPawnAttacksMask / bPawnAttacksMask shapes are modelled by hand; castle bit numbers:
    for n in ["A1_CASTLE", "H1_CASTLE", "A8_CASTLE", "H8_CASTLE"]:
        defs.append((n, "N", find_const(pos, n, "position.hpp", typ="int")))
    return defs


def render(defs):
    out = ["(** GENERATED by tx/c01_tables.py from lib/texellib/bitBoard.{hpp,cpp} and position.hpp of the",
           "    current source tree.  Do not edit; regenerated on every run of ./check C01. *)",
           "From Coq Require Import ZArith NArith List.", "Import ListNotations.", ""]
    for name, typ, v in defs:
        if typ == "N":
            out.append("Definition %s : N := %d%%N." % (name, v))
        elif typ == "Z":
            out.append("Definition %s : Z := (%d)%%Z." % (name, v))
        elif typ == "list N":
            out.append("Definition %s : list N := [%s]%%N." % (name, "; ".join(str(x) for x in v)))
        elif typ == "list Z":
            out.append("Definition %s : list Z := [%s]%%Z." % (name, "; ".join("(%d)" % x for x in v)))
        else:
            raise TranslateError("internal: type " + typ)
    return "\n".join(out) + "\n"


def run(repo, outdir):
    txt = render(translate(repo))
    os.makedirs(outdir, exist_ok=True)
    p = os.path.join(outdir, "BitBoardTables.v")
    old = open(p).read() if os.path.exists(p) else None
    if old != txt:
        with open(p + ".tmp", "w") as f:
            f.write(txt)
        os.replace(p + ".tmp", p)
        return p, True
    return p, False


if __name__ == "__main__":
    repo = sys.argv[1] if len(sys.argv) > 1 else os.environ.get("VERIF_REPO", "/repo")
    outdir = sys.argv[2] if len(sys.argv) > 2 else os.path.join(os.path.dirname(os.path.dirname(os.path.abspath(__file__))), "coq", "gen")
    try:
        p, changed = run(repo, outdir)
    except TranslateError as ex:
        print("TRANSLATE-ERROR: %s" % ex)
        sys.exit(3)
    print("%s %s" % (p, "rewritten" if changed else "unchanged"))
