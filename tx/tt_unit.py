"""The translation unit of the transposition table (first user of tx/leaf.py): which functions
of lib/texellib/transpositionTable.hpp are regenerated into coq/gen/TTGen.v."""
import os

from . import consts, leaf

INCLUDES = ["lib/texellib"] + ["lib/texellib/" + d for d in ("util", "hw", "tb", "nn", "debug", "book")]

TTE = "TranspositionTable::TTEntry"

CLASSES = {
    "Square": {"prefix": "Square", "fields": ["sq"], "newtype": ("s", 32)},
    "Move": {"prefix": "Move", "fields": ["from_", "to_", "promoteTo_", "score_"]},
    "TranspositionTable::TTEntryStorage": {"prefix": "TTStorage", "fields": ["key", "data"]},
    TTE: {"prefix": "TTEntry", "fields": ["key", "data"]},
    "TranspositionTable": {"prefix": "TT", "fields": ["usedSizeTopBits", "usedSizeShift", "usedSizeMask", "generation", "contemptHash"]},
}

FIELDS = ["Move", "Score", "Depth", "Busy", "Generation", "Type", "EvalScore"]

FUNCS = (
    ["SearchConst::isWinScore", "SearchConst::isLoseScore",
     "Square::asInt", "Move::from", "Move::to", "Move::promoteTo", "Move::score", "Move::setMove",
     "Move::getCompressedMove", "Move::setFromCompressed", "Move::isEmpty",
     TTE + "::getBits", TTE + "::setBits", TTE + "::getKey", TTE + "::setKey", TTE + "::getData",
     TTE + "::store", TTE + "::load", TTE + "::clear"] +
    [TTE + "::get" + f for f in FIELDS] + [TTE + "::set" + f for f in FIELDS] +
    [TTE + "::isCutOff", TTE + "::betterThan",
     "TranspositionTable::getIndex", "TranspositionTable::nextGeneration",
     "TranspositionTable::setWhiteContempt"]
)


class TTUnit(leaf.Unit):
    def __init__(self, repo):
        super().__init__(repo, "lib/texellib/transpositionTable.cpp", INCLUDES, CLASSES, FUNCS,
                         const_namespaces=["SearchConst", "TType"])

    def translate_all(self):
        for ns in ("SearchConst", "TType"):
            for q in consts.namespace_consts(self, ns):
                self.const_value(q)
        super().translate_all()
        self.layout = consts.bitfield_layout(self, TTE, FIELDS)

    def finish_text(self):
        return self.emit("transposition-table leaf functions, score constants, entry layout") + "\n" + \
            "From Coq Require Import List.\n" + consts.emit_layout("TTEntry", self.layout)


def generate(verif, repo):
    """Regenerate coq/gen/TTGen.v (+ LeafPrelude.v).  Returns (text, changed)."""
    out = os.path.join(verif, "coq", "gen", "TTGen.v")
    return leaf.generate(TTUnit, out, repo, ["lib/texellib"], cache_dir=os.path.join(verif, ".cache", "tx"),
                         tag=open(os.path.abspath(__file__)).read() + open(consts.__file__).read())


if __name__ == "__main__":
    import sys
    here = os.path.dirname(os.path.dirname(os.path.abspath(__file__)))
    text, changed = generate(here, sys.argv[1] if len(sys.argv) > 1 else os.environ.get("VERIF_REPO", "/repo"))
    sys.stdout.write(text)
