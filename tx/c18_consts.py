#!/usr/bin/env python3
"""Translator for C18: re-extracts from the C++ text of the *current* /repo tree
  * PolyglotBook::hashRandoms (polyglot.cpp) — every literal of the initialiser list,
  * the piece -> pVal table, the castle / en-passant / side-to-move offsets of getHashKey,
  * the promotion-code table of PolyglotBook::getMove and of getPGMove,
  * the castling square conversions of getMove (from, piece, to -> to'),
  * entSize of Book::getBookEntries, the weight-sum limit of Book::getBookMove (book.cpp), the
    range constant of Random::nextInt
    (random.cpp), Piece::Type numbering (piece.hpp), castle bit numbers (position.hpp)
and writes coq/gen/PolyglotRandoms.v.

Only the literal shapes present in the code are understood; anything else aborts with
TranslateError (a broken tie, never a silently skipped definition).  The output file is
rewritten only when its content changes."""
import os
import re
import sys


class TranslateError(Exception):
    pass


def strip_comments(txt):
    txt = re.sub(r"/\*.*?\*/", lambda m: "\n" * m.group(0).count("\n"), txt, flags=re.S)
    txt = re.sub(r"//[^\n]*", "", txt)
    return txt


def read(repo, rel):
    p = os.path.join(repo, rel)
    try:
        return strip_comments(open(p).read())
    except OSError as ex:
        raise TranslateError("cannot read %s: %s" % (p, ex))


INT_RE = re.compile(r"^(0[xX][0-9a-fA-F]+|[0-9]+)(ULL|ull|UL|ul|LL|ll|U|u|L|l)?$")


def parse_int(tok, what):
    m = INT_RE.match(tok.strip())
    if not m:
        raise TranslateError("translator cannot handle %r in %s" % (tok, what))
    return int(m.group(1), 0)


def function_body(txt, header_re, what):
    m = re.search(header_re, txt)
    if not m:
        raise TranslateError("cannot find %s" % what)
    i = txt.index("{", m.end() - 1) if txt[m.end() - 1] != "{" else m.end() - 1
    depth = 0
    for j in range(i, len(txt)):
        if txt[j] == "{":
            depth += 1
        elif txt[j] == "}":
            depth -= 1
            if depth == 0:
                return txt[i + 1:j]
    raise TranslateError("unbalanced braces in %s" % what)


SQUARES = {("%c%d" % ("ABCDEFGH"[x], y + 1)): y * 8 + x for x in range(8) for y in range(8)}


def translate(repo):
    pg = read(repo, "lib/texellib/book/polyglot.cpp")
    bk = read(repo, "lib/texellib/book/book.cpp")
    rnd = read(repo, "lib/texellib/util/random.cpp")
    pc = read(repo, "lib/texellib/piece.hpp")
    ps = read(repo, "lib/texellib/position.hpp")

    # ---- Piece::Type numbering
    m = re.search(r"enum\s+Type\s*(?::\s*\w+\s*)?\{(.*?)\}", pc, flags=re.S)
    if not m:
        raise TranslateError("cannot find Piece::Type enum")
    pieces = {}
    for it in m.group(1).split(","):
        it = it.strip()
        if not it:
            continue
        mm = re.match(r"^(\w+)\s*=\s*(\w+)$", it)
        if not mm:
            raise TranslateError("translator cannot handle enum item %r in Piece::Type" % it)
        pieces[mm.group(1)] = parse_int(mm.group(2), "Piece::Type")
    for need in ("EMPTY", "WKING", "WQUEEN", "WROOK", "WBISHOP", "WKNIGHT", "WPAWN",
                 "BKING", "BQUEEN", "BROOK", "BBISHOP", "BKNIGHT", "BPAWN"):
        if need not in pieces:
            raise TranslateError("Piece::%s missing" % need)

    # ---- castle bit numbers and accessors
    cbits = {}
    for name in ("A1_CASTLE", "H1_CASTLE", "A8_CASTLE", "H8_CASTLE"):
        mm = re.search(r"static\s+const\s+int\s+%s\s*=\s*(\w+)\s*;" % name, ps)
        if not mm:
            raise TranslateError("cannot find Position::%s" % name)
        cbits[name] = parse_int(mm.group(1), name)
    accessor_bit = {}
    for acc in ("a1Castle", "h1Castle", "a8Castle", "h8Castle"):
        body = function_body(ps, r"Position::%s\s*\(\s*\)\s*const\s*\{" % acc, "Position::" + acc)
        mm = re.match(r"^\s*return\s*\(\s*castleMask\s*&\s*\(\s*1\s*<<\s*(\w+)\s*\)\s*\)\s*!=\s*0\s*;\s*$", body)
        if not mm or mm.group(1) not in cbits:
            raise TranslateError("translator cannot handle body of Position::%s: %r" % (acc, body))
        accessor_bit[acc] = cbits[mm.group(1)]

    # ---- hashRandoms
    m = re.search(r"PolyglotBook::hashRandoms\s*\[\s*\]\s*=\s*\{(.*?)\}\s*;", pg, flags=re.S)
    if not m:
        raise TranslateError("cannot find initialiser list of PolyglotBook::hashRandoms")
    body = m.group(1)
    if "{" in body or "(" in body:
        raise TranslateError("nested/complex initialiser in hashRandoms")
    randoms = [parse_int(x, "hashRandoms") for x in (s.strip() for s in body.split(",")) if x != ""]
    for v in randoms:
        if not (0 <= v < 2 ** 64):
            raise TranslateError("hashRandoms literal out of U64 range")

    # ---- getHashKey
    hk = function_body(pg, r"PolyglotBook::getHashKey\s*\([^)]*\)\s*\{", "PolyglotBook::getHashKey")
    pvals = []
    for mm in re.finditer(r"case\s+Piece::(\w+)\s*:\s*pVal\s*=\s*(\w+)\s*;\s*break\s*;", hk):
        if mm.group(1) not in pieces:
            raise TranslateError("unknown piece %s in getHashKey" % mm.group(1))
        pvals.append((pieces[mm.group(1)], parse_int(mm.group(2), "pVal")))
    ncase = len(re.findall(r"\bcase\b", hk))
    if ncase != len(pvals) or not pvals:
        raise TranslateError("translator cannot handle the piece switch of getHashKey (%d case labels, %d understood)" % (ncase, len(pvals)))
    mm = re.search(r"key\s*\^=\s*hashRandoms\s*\[\s*(\w+)\s*\*\s*pVal\s*\+\s*sq\.asInt\(\)\s*\]\s*;", hk)
    if not mm:
        raise TranslateError("translator cannot handle the piece term of getHashKey")
    piece_stride = parse_int(mm.group(1), "piece stride")
    if not re.search(r"if\s*\(\s*pVal\s*>=\s*0\s*\)\s*key\s*\^=", hk):
        raise TranslateError("translator cannot handle the pVal guard of getHashKey")
    if not re.search(r"int\s+pVal\s*=\s*-1\s*;", hk):
        raise TranslateError("translator cannot handle the pVal initialiser of getHashKey")
    castles = []
    for mm in re.finditer(r"if\s*\(\s*pos\.(\w+)\s*\(\s*\)\s*\)\s*key\s*\^=\s*hashRandoms\s*\[\s*(\w+)\s*\+\s*(\w+)\s*\]\s*;", hk):
        if mm.group(1) not in accessor_bit:
            raise TranslateError("unknown accessor pos.%s() in getHashKey" % mm.group(1))
        castles.append((accessor_bit[mm.group(1)], parse_int(mm.group(2), "castle") + parse_int(mm.group(3), "castle")))
    if len(castles) != 4:
        raise TranslateError("expected 4 castle terms in getHashKey, found %d" % len(castles))
    mm = re.search(r"if\s*\(\s*pos\.getEpSquare\(\)\.isValid\(\)\s*\)\s*\{\s*int\s+epFile\s*=\s*Square\s*\(\s*pos\.getEpSquare\(\)\s*\)\.getX\(\)\s*;"
                   r"\s*key\s*\^=\s*hashRandoms\s*\[\s*(\w+)\s*\+\s*epFile\s*\]\s*;\s*\}", hk)
    if not mm:
        raise TranslateError("translator cannot handle the en-passant term of getHashKey")
    ep_base = parse_int(mm.group(1), "ep base")
    mm = re.search(r"if\s*\(\s*pos\.isWhiteMove\(\)\s*\)\s*key\s*\^=\s*hashRandoms\s*\[\s*(\w+)\s*\]\s*;", hk)
    if not mm:
        raise TranslateError("translator cannot handle the side-to-move term of getHashKey")
    wtm_idx = parse_int(mm.group(1), "wtm index")
    nxor = len(re.findall(r"\^=", hk))
    if nxor != 1 + 4 + 1 + 1:
        raise TranslateError("getHashKey has %d xor terms, 7 understood" % nxor)

    # ---- getMove
    gm = function_body(pg, r"PolyglotBook::getMove\s*\([^)]*\)\s*\{", "PolyglotBook::getMove")
    fields = {}
    for nm, pat in (("toFile", r"int\s+toFile\s*=\s*move\s*&\s*(\w+)\s*;"),
                    ("toRow", r"int\s+toRow\s*=\s*\(\s*move\s*>>\s*(\w+)\s*\)\s*&\s*(\w+)\s*;"),
                    ("fromFile", r"int\s+fromFile\s*=\s*\(\s*move\s*>>\s*(\w+)\s*\)\s*&\s*(\w+)\s*;"),
                    ("fromRow", r"int\s+fromRow\s*=\s*\(\s*move\s*>>\s*(\w+)\s*\)\s*&\s*(\w+)\s*;"),
                    ("prom", r"int\s+prom\s*=\s*\(\s*move\s*>>\s*(\w+)\s*\)\s*&\s*(\w+)\s*;")):
        mm = re.search(pat, gm)
        if not mm:
            raise TranslateError("translator cannot handle field %s of getMove" % nm)
        g = [parse_int(x, nm) for x in mm.groups()]
        fields[nm] = (0, g[0]) if len(g) == 1 else (g[0], g[1])
    if not re.search(r"Square\s+from\s*=\s*Square\s*\(\s*fromFile\s*,\s*fromRow\s*\)\s*;", gm) or \
       not re.search(r"Square\s+to\s*=\s*Square\s*\(\s*toFile\s*,\s*toRow\s*\)\s*;", gm) or \
       not re.search(r"return\s+Move\s*\(\s*from\s*,\s*to\s*,\s*promoteTo\s*\)\s*;", gm) or \
       not re.search(r"bool\s+wtm\s*=\s*pos\.isWhiteMove\(\)\s*;", gm):
        raise TranslateError("translator cannot handle the square construction / return of getMove")
    proms = []
    for mm in re.finditer(r"case\s+(\w+)\s*:\s*promoteTo\s*=\s*wtm\s*\?\s*Piece::(\w+)\s*:\s*Piece::(\w+)\s*;\s*break\s*;", gm):
        proms.append((parse_int(mm.group(1), "prom"), pieces[mm.group(2)], pieces[mm.group(3)]))
    mm = re.search(r"default\s*:\s*promoteTo\s*=\s*Piece::(\w+)\s*;", gm)
    if not mm or len(re.findall(r"\bcase\b", gm)) != len(proms):
        raise TranslateError("translator cannot handle the promotion switch of getMove")
    prom_default = pieces[mm.group(1)]
    conv = []      # (from square, piece, [(to, to')])
    for mm in re.finditer(r"if\s*\(\s*\(\s*from\s*==\s*(\w+)\s*\)\s*&&\s*\(\s*pos\.getPiece\(from\)\s*==\s*Piece::(\w+)\s*\)\s*\)\s*\{"
                          r"\s*if\s*\(\s*to\s*==\s*(\w+)\s*\)\s*to\s*=\s*(\w+)\s*;\s*else\s+if\s*\(\s*to\s*==\s*(\w+)\s*\)\s*to\s*=\s*(\w+)\s*;\s*\}", gm):
        g = mm.groups()
        for s in (g[0], g[2], g[3], g[4], g[5]):
            if s not in SQUARES:
                raise TranslateError("unknown square name %s in getMove" % s)
        conv.append((SQUARES[g[0]], pieces[g[1]], SQUARES[g[2]], SQUARES[g[3]], SQUARES[g[4]], SQUARES[g[5]]))
    if len(conv) != len(re.findall(r"pos\.getPiece", gm)) or len(conv) != 2:
        raise TranslateError("translator cannot handle the castling conversion of getMove")
    nif = len(re.findall(r"\bif\b", gm))
    if nif != 6:
        raise TranslateError("getMove has %d if statements, 6 understood" % nif)

    # ---- getPGMove
    ge_ = function_body(pg, r"PolyglotBook::getPGMove\s*\([^)]*\)\s*\{", "PolyglotBook::getPGMove")
    for nm, src in (("fromX", r"move\.from\(\)\.getX\(\)"), ("fromY", r"move\.from\(\)\.getY\(\)"),
                    ("toX", r"move\.to\(\)\.getX\(\)"), ("toY", r"move\.to\(\)\.getY\(\)")):
        if not re.search(r"int\s+%s\s*=\s*%s\s*;" % (nm, src), ge_):
            raise TranslateError("translator cannot handle %s of getPGMove" % nm)
    enc_castle = []
    for mm in re.finditer(r"if\s*\(\s*\(\s*move\.from\(\)\s*==\s*(\w+)\s*\)\s*&&\s*\(\s*pos\.getPiece\(move\.from\(\)\)\s*==\s*Piece::(\w+)\s*\)\s*\)\s*\{"
                          r"\s*if\s*\(\s*move\.to\(\)\s*==\s*(\w+)\s*\)\s*toX\s*=\s*Square\((\w+)\)\.getX\(\)\s*;"
                          r"\s*if\s*\(\s*move\.to\(\)\s*==\s*(\w+)\s*\)\s*toX\s*=\s*Square\((\w+)\)\.getX\(\)\s*;\s*\}", ge_):
        g = mm.groups()
        for sname in (g[0], g[2], g[3], g[4], g[5]):
            if sname not in SQUARES:
                raise TranslateError("unknown square name %s in getPGMove" % sname)
        enc_castle.append((SQUARES[g[0]], pieces[g[1]], SQUARES[g[2]], SQUARES[g[3]] & 7, SQUARES[g[4]], SQUARES[g[5]] & 7))
    if len(enc_castle) != 2 or len(re.findall(r"\bif\b", ge_)) != 6:
        raise TranslateError("translator cannot handle the castling conversion of getPGMove")
    enc_prom = []
    for mm in re.finditer(r"((?:case\s+Piece::\w+\s*:\s*)+)prom\s*=\s*(\w+)\s*;\s*break\s*;", ge_):
        for pn in re.findall(r"Piece::(\w+)", mm.group(1)):
            enc_prom.append((pieces[pn], parse_int(mm.group(2), "prom code")))
    if len(enc_prom) != len(re.findall(r"\bcase\b", ge_)) or not re.search(r"int\s+prom\s*=\s*0\s*;", ge_):
        raise TranslateError("translator cannot handle the promotion switch of getPGMove")
    mm = re.search(r"return\s+toX\s*\|\s*\(\s*toY\s*<<\s*(\w+)\s*\)\s*\|\s*\(\s*fromX\s*<<\s*(\w+)\s*\)\s*\|\s*\(\s*fromY\s*<<\s*(\w+)\s*\)\s*\|\s*\(\s*prom\s*<<\s*(\w+)\s*\)\s*;", ge_)
    if not mm:
        raise TranslateError("translator cannot handle the return expression of getPGMove")
    enc_shifts = [parse_int(x, "getPGMove shift") for x in mm.groups()]

    # ---- deSerialize field layout
    ds = function_body(pg, r"PolyglotBook::deSerialize\s*\([^)]*\)\s*\{", "PolyglotBook::deSerialize")
    layout = []
    for mm in re.finditer(r"(\w+)\s*=\s*0\s*;\s*for\s*\(\s*int\s+i\s*=\s*0\s*;\s*i\s*<\s*(\w+)\s*;\s*i\+\+\s*\)\s*"
                          r"(\w+)\s*=\s*\(\s*(\w+)\s*<<\s*(\w+)\s*\)\s*\|\s*ent\.data\s*\[\s*(?:(\w+)\s*\+\s*)?i\s*\]\s*;", ds):
        g = mm.groups()
        if not (g[0] == g[2] == g[3]) or parse_int(g[4], "shift") != 8:
            raise TranslateError("translator cannot handle deSerialize loop for %s" % g[0])
        layout.append((g[0], parse_int(g[5], "offset") if g[5] else 0, parse_int(g[1], "count")))
    if [l[0] for l in layout] != ["hash", "move", "weight"] or len(re.findall(r"\bfor\b", ds)) != 3:
        raise TranslateError("translator cannot handle the layout of deSerialize: %r" % layout)

    # ---- entSize (book.cpp), nextInt range (random.cpp)
    ge = function_body(bk, r"Book::getBookEntries\s*\([^)]*\)\s*const\s*\{", "Book::getBookEntries")
    mm = re.search(r"const\s+int\s+entSize\s*=\s*(\w+)\s*;", ge)
    if not mm:
        raise TranslateError("cannot find entSize in Book::getBookEntries")
    ent_size = parse_int(mm.group(1), "entSize")
    gb = function_body(bk, r"Book::getBookMove\s*\([^)]*\)\s*\{", "Book::getBookMove")
    mm = re.search(r"sum\s*\+=\s*getWeight\s*\(\s*be\.count\s*,\s*pgBook\s*\)\s*;\s*if\s*\(\s*sum\s*>\s*\(\s*1\s*<<\s*(\w+)\s*\)\s*\)\s*return\s*;", gb)
    if not mm:
        raise TranslateError("cannot find the weight-sum limit `if (sum > (1 << N)) return;` after the accumulation in the first loop of Book::getBookMove")
    sum_limit_bits = parse_int(mm.group(1), "sum limit")
    if len(re.findall(r"sum\s*\+=", gb)) != 2 or len(re.findall(r"\bfor\b", gb)) != 3:
        raise TranslateError("Book::getBookMove has an unexpected loop structure")
    ni = function_body(rnd, r"Random::nextInt\s*\(\s*int\s+modulo\s*\)\s*\{", "Random::nextInt")
    mm = re.search(r"int\s+N\s*=\s*1\s*<<\s*(\w+)\s*;", ni)
    if not mm:
        raise TranslateError("cannot find N in Random::nextInt")
    next_int_bits = parse_int(mm.group(1), "nextInt N")

    out = []
    out.append("(** GENERATED by tx/c18_consts.py from the current /repo tree — do not edit. *)")
    out.append("From Coq Require Import ZArith NArith List.")
    out.append("Import ListNotations.")
    out.append("")
    out.append("Definition hashRandoms : list N := [")
    for i in range(0, len(randoms), 4):
        chunk = randoms[i:i + 4]
        sep = ";" if i + 4 < len(randoms) else ""
        out.append("  " + "; ".join("0x%016x" % v for v in chunk) + sep)
    out.append("]%N.")
    out.append("")
    out.append("(** Piece::Type numbering (piece.hpp) as used below: "
               + ", ".join("%s=%d" % kv for kv in sorted(pieces.items(), key=lambda kv: kv[1])) + " *)")
    out.append("Definition pgPieceCodes : list N := [%s]%%N." % "; ".join(
        str(pieces[k]) for k in ("EMPTY", "WKING", "WQUEEN", "WROOK", "WBISHOP", "WKNIGHT", "WPAWN",
                                 "BKING", "BQUEEN", "BROOK", "BBISHOP", "BKNIGHT", "BPAWN")))
    out.append("(** getHashKey: (piece code, pVal) *)")
    out.append("Definition pgPieceVals : list (N * N) := [%s]%%N." % "; ".join("(%d, %d)" % pv for pv in pvals))
    out.append("Definition pgPieceStride : N := %d%%N." % piece_stride)
    out.append("(** getHashKey: (castle mask bit, hashRandoms index) in program order *)")
    out.append("Definition pgCastleIdx : list (N * N) := [%s]%%N." % "; ".join("(%d, %d)" % c for c in castles))
    out.append("Definition pgEpBase : N := %d%%N." % ep_base)
    out.append("Definition pgWtmIdx : N := %d%%N." % wtm_idx)
    out.append("(** getMove: (shift, mask) of each field of the 16-bit move *)")
    for nm in ("toFile", "toRow", "fromFile", "fromRow", "prom"):
        out.append("Definition pg_%s_shift : N := %d%%N.  Definition pg_%s_mask : N := %d%%N." % (nm, fields[nm][0], nm, fields[nm][1]))
    out.append("(** getMove: (prom code, white piece, black piece); other codes give pgPromDefault *)")
    out.append("Definition pgPromTable : list (N * (N * N)) := [%s]%%N." % "; ".join("(%d, (%d, %d))" % p for p in proms))
    out.append("Definition pgPromDefault : N := %d%%N." % prom_default)
    out.append("(** getMove castling conversion: (from, piece on from, to1, to1', to2, to2') *)")
    out.append("Definition pgCastleConv : list (N * N * (N * N) * (N * N)) := [%s]%%N." % "; ".join(
        "(%d, %d, (%d, %d), (%d, %d))" % c for c in conv))
    out.append("(** getPGMove castling conversion: (from, piece on from, (to1, new file1), (to2, new file2)) *)")
    out.append("Definition pgEncCastle : list (N * N * (N * N) * (N * N)) := [%s]%%N." % "; ".join(
        "(%d, %d, (%d, %d), (%d, %d))" % c for c in enc_castle))
    out.append("(** getPGMove promotion switch: (promoteTo piece, code); other pieces give 0 *)")
    out.append("Definition pgEncProm : list (N * N) := [%s]%%N." % "; ".join("(%d, %d)" % e for e in enc_prom))
    out.append("Definition pgEnc_toY_shift : N := %d%%N.  Definition pgEnc_fromX_shift : N := %d%%N.  "
               "Definition pgEnc_fromY_shift : N := %d%%N.  Definition pgEnc_prom_shift : N := %d%%N." % tuple(enc_shifts))
    out.append("(** deSerialize layout: offset and byte count of hash, move, weight *)")
    for nm, off, cnt in layout:
        out.append("Definition pg_%s_off : nat := %d.  Definition pg_%s_len : nat := %d." % (nm, off, nm, cnt))
    out.append("Definition pgEntSize : Z := %d%%Z." % ent_size)
    out.append("Definition nextIntBits : Z := %d%%Z." % next_int_bits)
    out.append("(** Book::getBookMove: `if (sum > (1 << N)) return;` inside the first loop *)")
    out.append("Definition pgSumLimitBits : Z := %d%%Z." % sum_limit_bits)
    return "\n".join(out) + "\n"


def main(repo, outpath):
    txt = translate(repo)
    os.makedirs(os.path.dirname(outpath), exist_ok=True)
    old = open(outpath).read() if os.path.exists(outpath) else None
    if old != txt:
        with open(outpath + ".tmp", "w") as f:
            f.write(txt)
        os.replace(outpath + ".tmp", outpath)
        return True
    return False


if __name__ == "__main__":
    repo = os.environ.get("VERIF_REPO", "/repo")
    here = os.path.dirname(os.path.dirname(os.path.abspath(__file__)))
    out = sys.argv[1] if len(sys.argv) > 1 else os.path.join(here, "coq", "gen", "PolyglotRandoms.v")
    try:
        changed = main(repo, out)
    except TranslateError as ex:
        print("TranslateError: %s" % ex)
        sys.exit(3)
    print("%s %s" % (out, "rewritten" if changed else "unchanged"))
