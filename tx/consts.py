"""tx/consts.py — numeric constants and bit-field layouts re-extracted from the C++ source.

Works on a loaded tx.leaf.Unit (one clang AST dump):
  * `namespace_consts(unit, "SearchConst")` evaluates every `const` integer variable of a
    namespace / class from its initialiser (literals, + - * / % << >> & | ^ ~, references to
    earlier constants; anything else raises TranslatorError = broken tie);
  * `bitfield_layout(unit, cls, getter="getBits", setter="setBits")` walks the bodies of the
    accessors of `cls` and returns {accessor: (first, size)} from the literal arguments of
    their getBits/setBits calls, checking that the get and the set accessor of a field agree;
  * `emit_layout` prints these as Gallina definitions.
"""
from .leaf import TranslatorError, canon_type, is_int, zlit


def namespace_consts(unit, ns):
    """Names (qualified) of all const integer variables directly inside namespace/class ns."""
    out = []
    for q, node in unit.const_nodes.items():
        if "::".join(q.split("::")[:-1]) != ns:
            continue
        ty = node["type"]["qualType"]
        if "const" not in ty:
            continue
        try:
            t = canon_type(node["type"])
        except TranslatorError:
            continue
        if not (is_int(t) or t == "bool"):
            continue
        out.append((node.get("loc", {}).get("offset", 0), q))
    if not out:
        raise TranslatorError("translator cannot handle namespace %s: no const integer variables found" % ns)
    return [q for _, q in sorted(out)]


def _calls(n, out):
    if n.get("kind") == "CXXMemberCallExpr":
        c = n["inner"][0]
        if c.get("kind") == "MemberExpr":
            out.append((c.get("name"), n["inner"][1:]))
    for c in n.get("inner", []):
        _calls(c, out)


def _lit(a):
    while a.get("kind") in ("ImplicitCastExpr", "ParenExpr"):
        a = a["inner"][0]
    if a.get("kind") != "IntegerLiteral":
        return None
    return int(a["value"])


def bitfield_layout(unit, cls, accessors, getter="getBits", setter="setBits"):
    """accessors: list of field names F such that cls::getF / cls::setF exist.
    Returns [(F, first, size)]."""
    res = []
    for f in accessors:
        found = {}
        for kind, prim in (("get", getter), ("set", setter)):
            q = "%s::%s%s" % (cls, kind, f)
            defs = unit.bodies.get(q, [])
            if len(defs) != 1:
                raise TranslatorError("translator cannot handle layout of %s: %d definitions" % (q, len(defs)))
            calls = []
            _calls(defs[0], calls)
            hits = [args for name, args in calls if name == prim]
            if len(hits) != 1:
                raise TranslatorError("translator cannot handle layout of %s: %d calls of %s" % (q, len(hits), prim))
            a = hits[0]
            first, size = _lit(a[0]), _lit(a[1])
            if first is None or size is None:
                raise TranslatorError("translator cannot handle layout of %s: non-literal position" % q)
            found[kind] = (first, size)
        if found["get"] != found["set"]:
            raise TranslatorError("bit-field %s of %s: getter reads %s but setter writes %s" % (f, cls, found["get"], found["set"]))
        res.append((f, found["get"][0], found["get"][1]))
    return res


def emit_layout(name, layout):
    lines = ["(** bit-field layout (first, size), from the literal arguments of the accessors *)"]
    for f, first, size in layout:
        lines.append("Definition %s_%s_first : Z := %s.\nDefinition %s_%s_size : Z := %s." % (name, f, zlit(first), name, f, zlit(size)))
    lines.append("Definition %s_layout : list (Z * Z) := (%s :: nil)%%list." % (
        name, " :: ".join("(%s_%s_first, %s_%s_size)" % (name, f, name, f) for f, _, _ in layout)))
    return "\n".join(lines) + "\n"
