#!/usr/bin/env python3
"""Translator for C03: regenerate the constants the root-loop model depends on into coq/gen/RootConsts.v
(run on every check, never committed):

  constants.hpp   MATE0, MAX_SEARCH_DEPTH, and the *bodies* of isWinScore / isLoseScore
                  (accepted only in the shape `return score > <e>;` / `return score < <e>;`)
  parameters.hpp  aspirationWindow, rootLMRMoveCount (must be compile-time constants)
  search.cpp      the arithmetic of Search::notifyPV(const MoveInfo&, int): the two mate-distance
                  expressions and the bound tests, the win-score aspiration delta (3000), the LCG constants
                  and the strength threshold of Search::getRootMoves
Anything that does not have the expected shape aborts ("translator cannot handle"), which the check reports
as a broken tie."""
import os
import re
import sys


class TranslatorError(Exception):
    pass


def strip_cpp_comments(txt):
    txt = re.sub(r"/\*.*?\*/", " ", txt, flags=re.S)
    txt = re.sub(r"//[^\n]*", " ", txt)
    return txt


def need(m, what):
    if not m:
        raise TranslatorError("translator cannot handle: " + what)
    return m


# ---- tiny expression translator: integer literals, identifiers, + - * / unary minus, parentheses ----
TOK = re.compile(r"\s*(\d+|[A-Za-z_]\w*|[-+*/()])")


def tokenize(s):
    out = []
    i = 0
    s = s.strip()
    while i < len(s):
        m = TOK.match(s, i)
        if not m:
            raise TranslatorError("translator cannot handle: expression %r" % s)
        out.append(m.group(1))
        i = m.end()
    return out


def expr_to_coq(s, idents):
    """C++ int expression -> Gallina over Z; `/` is C++ truncating division = Z.quot."""
    toks = tokenize(s)
    pos = [0]

    def peek():
        return toks[pos[0]] if pos[0] < len(toks) else None

    def eat():
        t = toks[pos[0]]
        pos[0] += 1
        return t

    def atom():
        t = eat()
        if t == "(":
            e = add()
            if eat() != ")":
                raise TranslatorError("translator cannot handle: expression %r" % s)
            return "(" + e + ")"
        if t == "-":
            return "(- " + atom() + ")"
        if t.isdigit():
            return t
        if t in idents:
            return idents[t]
        raise TranslatorError("translator cannot handle: identifier %r in %r" % (t, s))

    def mul():
        e = atom()
        while peek() in ("*", "/"):
            op = eat()
            r = atom()
            e = "(%s * %s)" % (e, r) if op == "*" else "(Z.quot %s %s)" % (e, r)
        return e

    def add():
        e = mul()
        while peek() in ("+", "-"):
            op = eat()
            r = mul()
            e = "(%s %s %s)" % (e, op, r)
        return e
    e = add()
    if pos[0] != len(toks):
        raise TranslatorError("translator cannot handle: expression %r" % s)
    return e


def int_const(txt, name, path):
    m = need(re.search(r"\bconst\s+int\s+%s\s*=\s*(-?\d+)\s*;" % name, txt), "const int %s in %s" % (name, path))
    return int(m.group(1))


def param(txt, name, path, use_uci):
    ms = re.findall(r"\bDECLARE_PARAM\s*\(\s*%s\s*,([^;]*?)\)\s*;" % re.escape(name), txt)
    if len(ms) != 1:
        raise TranslatorError("translator cannot handle: %d DECLARE_PARAM(%s, ...) in %s" % (len(ms), name, path))
    args = [a.strip() for a in ms[0].split(",")]
    if len(args) != 4 or not re.fullmatch(r"-?\d+", args[0]):
        raise TranslatorError("translator cannot handle: DECLARE_PARAM(%s,%s)" % (name, ms[0]))
    uci = use_uci if args[3] == "useUciParam" else (args[3] == "true")
    if uci:
        raise TranslatorError("translator cannot handle: %s is a UCI parameter (model expects a constant)" % name)
    return int(args[0])


def function_body(txt, header_re, what):
    m = need(re.search(header_re, txt), what)
    i = txt.index("{", m.end() - 1)
    depth = 0
    for j in range(i, len(txt)):
        if txt[j] == "{":
            depth += 1
        elif txt[j] == "}":
            depth -= 1
            if depth == 0:
                return txt[i + 1:j]
    raise TranslatorError("translator cannot handle: unbalanced body of " + what)


def parse(repo):
    tl = os.path.join(repo, "lib", "texellib")
    cpath = os.path.join(tl, "constants.hpp")
    ctxt = strip_cpp_comments(open(cpath).read())
    out = {}
    out["MATE0"] = int_const(ctxt, "MATE0", cpath)
    out["MAX_SEARCH_DEPTH"] = int_const(ctxt, "MAX_SEARCH_DEPTH", cpath)
    ids = {"MATE0": "MATE0", "score": "score"}
    m = need(re.search(r"inline\s+bool\s+isWinScore\s*\(\s*int\s+score\s*\)\s*\{\s*return\s+score\s*(>=|>)\s*([^;]+);\s*\}", ctxt),
             "isWinScore body in " + cpath)
    out["isWin"] = ("%s? " % m.group(1).replace(">=", ">=").replace(">", ">") , expr_to_coq(m.group(2), ids))
    out["isWin"] = (m.group(1), expr_to_coq(m.group(2), ids))
    m = need(re.search(r"inline\s+bool\s+isLoseScore\s*\(\s*int\s+score\s*\)\s*\{\s*return\s+score\s*(<=|<)\s*([^;]+);\s*\}", ctxt),
             "isLoseScore body in " + cpath)
    out["isLose"] = (m.group(1), expr_to_coq(m.group(2), ids))

    ppath = os.path.join(tl, "parameters.hpp")
    ptxt = strip_cpp_comments(open(ppath).read())
    m = need(re.search(r"\bconst\s+bool\s+useUciParam\s*=\s*(true|false)\s*;", ptxt), "useUciParam in " + ppath)
    use_uci = m.group(1) == "true"
    out["aspirationWindow"] = param(ptxt, "aspirationWindow", ppath, use_uci)
    out["rootLMRMoveCount"] = param(ptxt, "rootLMRMoveCount", ppath, use_uci)

    spath = os.path.join(tl, "search.cpp")
    stxt = strip_cpp_comments(open(spath).read())
    body = function_body(stxt, r"Search::notifyPV\s*\(\s*const\s+MoveInfo\s*&\s*info\s*,\s*int\s+multiPVIndex\s*\)\s*\{",
                         "Search::notifyPV(const MoveInfo&, int) in " + spath)
    m = need(re.search(r"if\s*\(\s*info\.depth\s*<=\s*0\s*\)\s*return\s*;", body), "depth guard of notifyPV")
    m = need(re.search(r"bool\s+uBound\s*=\s*info\.score\(\)\s*(<=|<)\s*info\.alpha\s*;", body), "uBound of notifyPV")
    out["uBoundOp"] = m.group(1)
    m = need(re.search(r"bool\s+lBound\s*=\s*info\.score\(\)\s*(>=|>)\s*info\.beta\s*;", body), "lBound of notifyPV")
    out["lBoundOp"] = m.group(1)
    m = need(re.search(r"if\s*\(\s*isWinScore\(score\)\s*\)\s*\{\s*isMate\s*=\s*true\s*;\s*score\s*=\s*([^;]+);\s*\}\s*"
                       r"else\s+if\s*\(\s*isLoseScore\(score\)\s*\)\s*\{\s*isMate\s*=\s*true\s*;\s*score\s*=\s*([^;]+);\s*\}", body),
             "mate-distance arithmetic of notifyPV")
    out["mateWin"] = expr_to_coq(m.group(1), ids)
    out["mateLose"] = expr_to_coq(m.group(2), ids)

    m = need(re.search(r"aspirationDelta\s*=\s*isWinScore\(std::abs\(rootMoves\[mi\]\.score\(\)\)\)\s*\?\s*(\d+)\s*:\s*aspirationWindow\s*;", stxt),
             "aspirationDelta in iterativeDeepening")
    out["winAspirationDelta"] = int(m.group(1))
    m = need(re.search(r"betaRetryDelta\s*=\s*betaRetryDelta\s*\*\s*(\d+)\s*/\s*(\d+)\s*;", stxt), "betaRetryDelta growth")
    m2 = need(re.search(r"alphaRetryDelta\s*=\s*alphaRetryDelta\s*\*\s*(\d+)\s*/\s*(\d+)\s*;", stxt), "alphaRetryDelta growth")
    if m.groups() != m2.groups():
        raise TranslatorError("translator cannot handle: different growth of alpha/beta retry deltas")
    out["retryNum"], out["retryDen"] = int(m.group(1)), int(m.group(2))
    m = need(re.search(r"\(\s*depth\s*>=\s*(\d+)\s*\)\s*&&\s*!isCapture\s*&&\s*!isPromotion", stxt), "root LMR depth bound")
    out["rootLMRMinDepth"] = int(m.group(1))

    body = function_body(stxt, r"Search::getRootMoves\s*\([^)]*\)\s*\{", "Search::getRootMoves in " + spath)
    m = need(re.search(r"rndL\s*=\s*(\d+)ULL\s*\*\s*rndL\s*\+\s*(\d+)ULL\s*;", body), "LCG of getRootMoves")
    out["lcgMul"], out["lcgAdd"] = int(m.group(1)), int(m.group(2))
    m = need(re.search(r"\(\(rndL\s*&\s*0x([0-9a-fA-F]+)ULL\)\s*%\s*(\d+)\)\s*/\s*1e(\d+)\s*;", body), "rnd of getRootMoves")
    out["rndMask"] = int(m.group(1), 16)
    out["rndMod"] = int(m.group(2))
    if 10 ** int(m.group(3)) != out["rndMod"]:
        raise TranslatorError("translator cannot handle: rnd modulus and divisor differ in getRootMoves")
    m = need(re.search(r"double\s+pIncl\s*=\s*\(\s*strength\s*<\s*(\d+)\s*\)\s*\?\s*strength\s*\*\s*strength\s*/\s*\(\s*([\d.]+)\s*\*\s*([\d.]+)\s*\)\s*:\s*1\.0\s*;", body),
             "pIncl of getRootMoves")
    out["weakThreshold"] = int(m.group(1))
    a, b = float(m.group(2)), float(m.group(3))
    if a != int(a) or b != int(b):
        raise TranslatorError("translator cannot handle: non-integral pIncl divisor")
    out["pInclDen"] = int(a) * int(b)
    need(re.search(r"includedMoves\[\(int\)\(rndL\s*%\s*rootMoves\.size\)\]\s*=\s*true\s*;", body), "forced element of getRootMoves")
    need(re.search(r"if\s*\(\s*rnd\s*<\s*pIncl\s*\)", body), "inclusion test of getRootMoves")
    return out


CMP = {">": "Z.gtb", ">=": "Z.geb", "<": "Z.ltb", "<=": "Z.leb"}


def render(c):
    def z(v):
        return "%d" % v if v >= 0 else "(%d)" % v
    L = ["(* GENERATED by tx/c03_consts.py from constants.hpp, parameters.hpp, search.cpp -- do not edit *)",
         "From Coq Require Import ZArith NArith.",
         "Local Open Scope Z_scope.",
         "",
         "Definition MATE0 : Z := %s." % z(c["MATE0"]),
         "Definition MAX_SEARCH_DEPTH : Z := %s." % z(c["MAX_SEARCH_DEPTH"]),
         "Definition aspirationWindow : Z := %s." % z(c["aspirationWindow"]),
         "Definition rootLMRMoveCount : nat := %d." % c["rootLMRMoveCount"],
         "Definition rootLMRMinDepth : Z := %s." % z(c["rootLMRMinDepth"]),
         "Definition winAspirationDelta : Z := %s." % z(c["winAspirationDelta"]),
         "Definition retryNum : Z := %s." % z(c["retryNum"]),
         "Definition retryDen : Z := %s." % z(c["retryDen"]),
         "(* SearchConst::isWinScore / isLoseScore *)",
         "Definition isWinScore (score : Z) : bool := %s score %s." % (CMP[c["isWin"][0]], c["isWin"][1]),
         "Definition isLoseScore (score : Z) : bool := %s score %s." % (CMP[c["isLose"][0]], c["isLose"][1]),
         "(* Search::notifyPV(const MoveInfo&, int): mate distance shown for win / lose scores, bound tests *)",
         "Definition mateWin (score : Z) : Z := %s." % c["mateWin"],
         "Definition mateLose (score : Z) : Z := %s." % c["mateLose"],
         "Definition uBoundTest (score alpha : Z) : bool := %s score alpha." % CMP[c["uBoundOp"]],
         "Definition lBoundTest (score beta : Z) : bool := %s score beta." % CMP[c["lBoundOp"]],
         "(* Search::getRootMoves: reduced-strength subset *)",
         "Definition lcgMul : N := %d%%N." % c["lcgMul"],
         "Definition lcgAdd : N := %d%%N." % c["lcgAdd"],
         "Definition rndMask : N := %d%%N." % c["rndMask"],
         "Definition rndMod : N := %d%%N." % c["rndMod"],
         "Definition weakThreshold : Z := %s." % z(c["weakThreshold"]),
         "Definition pInclDen : Z := %s." % z(c["pInclDen"]),
         ""]
    return "\n".join(L)


def generate(repo, verif):
    """Write coq/gen/RootConsts.v if its content changed; returns (path, constants dict)."""
    c = parse(repo)
    txt = render(c)
    d = os.path.join(verif, "coq", "gen")
    os.makedirs(d, exist_ok=True)
    p = os.path.join(d, "RootConsts.v")
    old = open(p).read() if os.path.exists(p) else None
    if old != txt:
        with open(p + ".tmp", "w") as f:
            f.write(txt)
        os.replace(p + ".tmp", p)
    return p, c


if __name__ == "__main__":
    repo = sys.argv[1] if len(sys.argv) > 1 else os.environ.get("VERIF_REPO", "/repo")
    verif = os.path.dirname(os.path.dirname(os.path.abspath(__file__)))
    p, c = generate(repo, verif)
    print(p)
    print(open(p).read())
