#!/usr/bin/env python3
"""Translator for C04/C13: regenerate the search score constants of
lib/texellib/constants.hpp (namespaces SearchConst and TType) and the one-line predicates
isWinScore / isLoseScore into coq/gen/SearchConsts.v (run on every check, never committed).

Accepted right-hand sides: integer literals and + - * / ( ) over literals and previously
defined constants of the same namespace (C++ semantics: `/` truncates).  The two predicates
must have the shape `return score <cmp> <expr>;`.  Anything else aborts with
"translator cannot handle ...", which the check reports as a broken tie.
"""
import os
import re
import sys

WANT_SEARCH = ["MATE0", "UNKNOWN_SCORE", "BUSY", "minFrustrated", "maxFrustrated", "MAX_SEARCH_DEPTH"]
WANT_TTYPE = ["T_EMPTY", "T_EXACT", "T_GE", "T_LE"]
PREDICATES = ["isWinScore", "isLoseScore"]


class TranslatorError(Exception):
    pass


def strip_cpp_comments(txt):
    txt = re.sub(r"/\*.*?\*/", " ", txt, flags=re.S)
    txt = re.sub(r"//[^\n]*", " ", txt)
    return txt


TOK = re.compile(r"\s*(\d+|[A-Za-z_]\w*|[-+*/()])")


def tokenize(s):
    out = []
    i = 0
    s = s.strip()
    while i < len(s):
        m = TOK.match(s, i)
        if not m:
            raise TranslatorError("translator cannot handle: expression %r" % s)
        out.append(m.group(1))
        i = m.end()
    return out


class Parser:
    """expr := term (('+'|'-') term)* ; term := unary (('*'|'/') unary)* ;
    unary := '-' unary | atom ; atom := int | ident | '(' expr ')'.
    Produces (value or None, coq term string); identifiers are looked up in env (values)
    or are the free variable names listed in `free`."""

    def __init__(self, toks, env, free=()):
        self.t = toks
        self.i = 0
        self.env = env
        self.free = set(free)

    def peek(self):
        return self.t[self.i] if self.i < len(self.t) else None

    def eat(self):
        x = self.peek()
        self.i += 1
        return x

    def expr(self):
        v, c = self.term()
        while self.peek() in ("+", "-"):
            op = self.eat()
            v2, c2 = self.term()
            v = None if v is None or v2 is None else (v + v2 if op == "+" else v - v2)
            c = "(%s %s %s)" % (c, op, c2)
        return v, c

    def term(self):
        v, c = self.unary()
        while self.peek() in ("*", "/"):
            op = self.eat()
            v2, c2 = self.unary()
            if op == "*":
                v = None if v is None or v2 is None else v * v2
                c = "(%s * %s)" % (c, c2)
            else:
                if v2 == 0:
                    raise TranslatorError("translator cannot handle: division by zero")
                if v is None or v2 is None:
                    v = None
                else:
                    v = (abs(v) // abs(v2)) * (1 if (v < 0) == (v2 < 0) else -1)
                c = "(Z.quot %s %s)" % (c, c2)          # C++ integer division truncates
        return v, c

    def unary(self):
        if self.peek() == "-":
            self.eat()
            v, c = self.unary()
            return (None if v is None else -v), "(- %s)" % c
        return self.atom()

    def atom(self):
        x = self.eat()
        if x is None:
            raise TranslatorError("translator cannot handle: truncated expression")
        if x == "(":
            v, c = self.expr()
            if self.eat() != ")":
                raise TranslatorError("translator cannot handle: unbalanced parentheses")
            return v, c
        if re.fullmatch(r"\d+", x):
            return int(x), x
        if x in self.free:
            return None, x
        if x in self.env:
            return self.env[x], x
        raise TranslatorError("translator cannot handle: unknown identifier %r" % x)


def parse_expr(s, env, free=()):
    p = Parser(tokenize(s), env, free)
    v, c = p.expr()
    if p.peek() is not None:
        raise TranslatorError("translator cannot handle: trailing tokens in %r" % s)
    return v, c


def namespace_body(txt, name):
    m = re.search(r"\bnamespace\s+%s\s*\{" % name, txt)
    if not m:
        raise TranslatorError("translator cannot handle: namespace %s not found" % name)
    depth = 1
    i = m.end()
    while i < len(txt) and depth:
        if txt[i] == "{":
            depth += 1
        elif txt[i] == "}":
            depth -= 1
        i += 1
    return txt[m.end():i - 1]


def parse(repo):
    path = os.path.join(repo, "lib", "texellib", "constants.hpp")
    txt = strip_cpp_comments(open(path).read())
    out = {"consts": [], "preds": []}
    for ns, want in (("SearchConst", WANT_SEARCH), ("TType", WANT_TTYPE)):
        body = namespace_body(txt, ns)
        env = {}
        for m in re.finditer(r"\bconst\s+int\s+(\w+)\s*=\s*([^;]*);", body):
            name, rhs = m.group(1), m.group(2)
            v, c = parse_expr(rhs, env)
            if v is None:
                raise TranslatorError("translator cannot handle: non-constant initialiser of %s" % name)
            env[name] = v
        for w in want:
            if w not in env:
                raise TranslatorError("translator cannot handle: constant %s::%s not found" % (ns, w))
            out["consts"].append((w, env[w]))
        if ns == "SearchConst":
            for pn in PREDICATES:
                m = re.search(r"\binline\s+bool\s+%s\s*\(\s*int\s+(\w+)\s*\)\s*\{\s*return\s+([^;{}]*);\s*\}" % pn, body)
                if not m:
                    raise TranslatorError("translator cannot handle: body of %s" % pn)
                var, e = m.group(1), m.group(2)
                mm = re.fullmatch(r"\s*(\w+)\s*(<=|>=|<|>|==|!=)\s*(.*)", e, flags=re.S)
                if not mm or mm.group(1) != var:
                    raise TranslatorError("translator cannot handle: %s returns %r" % (pn, e))
                _, c = parse_expr(mm.group(3), env, free=(var,))
                op = {"<": "<?", ">": ">?", "<=": "<=?", ">=": ">=?", "==": "=?"}.get(mm.group(2))
                if op is None:
                    raise TranslatorError("translator cannot handle: operator %s in %s" % (mm.group(2), pn))
                out["preds"].append((pn, var, "(%s %s %s)" % (var, op, c)))
    return out


def render(d):
    def z(v):
        return "%d" % v if v >= 0 else "(%d)" % v
    lines = ["(* GENERATED by tx/c04_consts.py from lib/texellib/constants.hpp -- do not edit *)",
             "From Coq Require Import ZArith.",
             "Local Open Scope Z_scope.",
             ""]
    for name, v in d["consts"]:
        lines.append("Definition %s : Z := %s." % (name, z(v)))
    lines.append("")
    for pn, var, body in d["preds"]:
        lines.append("Definition %s (%s : Z) : bool := %s." % (pn, var, body))
    return "\n".join(lines) + "\n"


def generate(repo, verif):
    """Write coq/gen/SearchConsts.v (only if its content changed). Returns (path, changed)."""
    txt = render(parse(repo))
    d = os.path.join(verif, "coq", "gen")
    os.makedirs(d, exist_ok=True)
    path = os.path.join(d, "SearchConsts.v")
    old = open(path).read() if os.path.exists(path) else None
    if old != txt:
        tmp = path + ".tmp%d" % os.getpid()
        with open(tmp, "w") as f:
            f.write(txt)
        os.replace(tmp, path)
        return path, True
    return path, False


if __name__ == "__main__":
    repo = sys.argv[1] if len(sys.argv) > 1 else os.environ.get("VERIF_REPO", "/repo")
    verif = os.path.dirname(os.path.dirname(os.path.abspath(__file__)))
    try:
        print(generate(repo, verif))
    except TranslatorError as ex:
        print(ex)
        sys.exit(3)
