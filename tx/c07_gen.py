#!/usr/bin/env python3
"""Translator for C07: regenerate from the C++ text, on every check run,
    coq/gen/NNGen.v  (never committed)
  * Piece::Type codes (piece.hpp) and NNEvaluator::ptValue (nneval.cpp: staticInitialize)
  * Square::{getX,getY,mirrorX,mirrorY,rot180}, the invalid-square marker (square.hpp)
  * the body of nneval.cpp:getIndex, rendered from a strict token template with holes for every
    method name, comparison operator and integer constant (a body that does not fit the template
    aborts with "translator cannot handle", which the check reports as a broken tie)
  * the isNonKing test of NNEvaluator::setPiece
  * the clamp bounds of the generic scaleClipPack loop (vectorop.hpp)
  * maxIncr, maxStackSize (= MAX_SEARCH_DEPTH * 2), n1, inFeatures, l1Shift, the capacity of the
    `add[2][N]` scratch array of computeL1WB
  * the evaluation-cache layout of evaluate.{hpp,cpp}: table size, empty-entry word, hit test,
    score bias, key mask, and the multiplier with which the contempt is mixed into the key
    (0 when the key is `historyHash()` alone, which is what the unchanged tree does)
  * the contempt term of Evaluate::evalPos (`whiteContempt * piecePlay / 128`)
Only literal integer expressions over + - * << ( ) are evaluated.
"""
import os
import re
import sys


class TranslatorError(Exception):
    pass


def strip_cpp_comments(txt):
    txt = re.sub(r"/\*.*?\*/", " ", txt, flags=re.S)
    txt = re.sub(r"//[^\n]*", " ", txt)
    return txt


def norm(txt):
    """token-normalised text: single spaces between tokens"""
    toks = re.findall(r"[A-Za-z_]\w*|0[xX][0-9a-fA-F]+[uUlL]*|\d+[uUlL]*|::|<<=|>>=|<<|>>|<=|>=|==|!=|&&|\|\||\^=|\+=|-=|\*=|\+\+|--|->|[^\s\w]", txt)
    return " ".join(toks)


def cint(expr, consts=None):
    """evaluate a literal integer expression"""
    e = expr.strip()
    for k, v in (consts or {}).items():
        e = re.sub(r"\b%s\b" % re.escape(k), str(v), e)
    e = re.sub(r"(?<=[0-9a-fA-F])(?:[uU][lL]{0,2}|[lL]{1,2}[uU]?)\b", "", e)
    if not re.fullmatch(r"[0-9a-fA-FxX\s()*+<>-]+", e) or ">>" in e.replace(" ", "") and False:
        raise TranslatorError("translator cannot handle constant expression %r" % expr)
    try:
        return int(eval(e, {"__builtins__": {}}, {}))
    except Exception:
        raise TranslatorError("translator cannot handle constant expression %r" % expr)


def need(m, what):
    if not m:
        raise TranslatorError("translator cannot handle: %s" % what)
    return m


INT = r"(?:0[xX][0-9a-fA-F]+[uUlL]*|\d+[uUlL]*)"
CMP = r"(?:>=|<=|==|!=|>|<)"
SQM = r"(?:mirrorX|mirrorY|rot180)"


def parse(repo):
    tl = os.path.join(repo, "lib", "texellib")
    rd = lambda *p: strip_cpp_comments(open(os.path.join(tl, *p)).read())
    out = {}

    # ---- piece codes
    piece = rd("piece.hpp")
    m = need(re.search(r"enum\s+Type\s*\{(.*?)\}", piece, re.S), "enum Piece::Type")
    codes = {}
    for ent in m.group(1).split(","):
        ent = ent.strip()
        if not ent:
            continue
        mm = need(re.fullmatch(r"(\w+)\s*=\s*(\d+)", ent), "Piece::Type enumerator %r" % ent)
        codes[mm.group(1)] = int(mm.group(2))
    for k in ("EMPTY", "WKING", "WQUEEN", "WROOK", "WBISHOP", "WKNIGHT", "WPAWN",
              "BKING", "BQUEEN", "BROOK", "BBISHOP", "BKNIGHT", "BPAWN", "nPieceTypes"):
        if k not in codes:
            raise TranslatorError("translator cannot handle: Piece::%s missing" % k)
    out["piece"] = codes

    # ---- square helpers
    sq = norm(rd("square.hpp"))
    out["sq_invalid"] = cint(need(re.search(r"inline Square :: Square \( \) : sq \( (- ?%s) \) \{ \}" % INT, sq), "Square() marker").group(1))
    m = need(re.search(r"Square :: isValid \( \) const \{ return sq != (- ?%s) ; \}" % INT, sq), "Square::isValid")
    if cint(m.group(1)) != out["sq_invalid"]:
        raise TranslatorError("translator cannot handle: isValid marker differs from Square()")
    out["getX_mask"] = cint(need(re.search(r"Square :: getX \( \) const \{ return sq & (%s) ; \}" % INT, sq), "Square::getX").group(1))
    out["getY_shift"] = cint(need(re.search(r"Square :: getY \( \) const \{ return sq >> (%s) ; \}" % INT, sq), "Square::getY").group(1))
    out["mirrorX_xor"] = cint(need(re.search(r"Square :: mirrorX \( \) const \{ return Square \( sq \^ (%s) \) ; \}" % INT, sq), "Square::mirrorX").group(1))
    out["mirrorY_xor"] = cint(need(re.search(r"Square :: mirrorY \( \) const \{ return Square \( sq \^ (%s) \) ; \}" % INT, sq), "Square::mirrorY").group(1))
    out["rot180_from"] = cint(need(re.search(r"Square :: rot180 \( \) const \{ return Square \( (%s) - sq \) ; \}" % INT, sq), "Square::rot180").group(1))

    # ---- nneval.cpp
    nn = norm(rd("nn", "nneval.cpp"))
    pv = {}
    m = need(re.search(r"NNEvaluator :: staticInitialize \( \) \{(.*?)\}", nn), "NNEvaluator::staticInitialize")
    body = m.group(1).strip()
    for st in [s.strip() for s in body.split(";") if s.strip()]:
        mm = need(re.fullmatch(r"ptValue \[ Piece :: (\w+) \] = (%s)" % INT, st), "ptValue statement %r" % st)
        if mm.group(1) not in codes or mm.group(1) in pv:
            raise TranslatorError("translator cannot handle: ptValue[%s]" % mm.group(1))
        pv[mm.group(1)] = cint(mm.group(2))
    out["ptValue"] = pv

    tmpl = (r"static inline int getIndex \( Square kSq , int pt , Square sq , bool white \) \{ "
            r"if \( (?P<neg>! ?)white \) \{ kSq = kSq \. (?P<m1>%(S)s) \( \) ; "
            r"pt = \( pt (?P<op1>%(C)s) (?P<c1>%(I)s) \) \? \( pt (?P<opa>[+-]) (?P<ca>%(I)s) \) : \( pt (?P<opb>[+-]) (?P<cb>%(I)s) \) ; "
            r"sq = sq \. (?P<m2>%(S)s) \( \) ; \} "
            r"int x = kSq \. (?P<gx>getX|getY) \( \) ; int y = kSq \. (?P<gy>getX|getY) \( \) ; "
            r"if \( x (?P<op2>%(C)s) (?P<c2>%(I)s) \) \{ x \^= (?P<c3>%(I)s) ; sq = sq \. (?P<m3>%(S)s) \( \) ; \} "
            r"int kIdx = y \* (?P<c4>%(I)s) \+ x ; "
            r"return \( kIdx \* (?P<c5>%(I)s) \+ pt \) \* (?P<c6>%(I)s) \+ sq \. asInt \( \) ; \}") % dict(S=SQM, C=CMP, I=INT)
    m = need(re.search(tmpl, nn), "body of nneval.cpp:getIndex (does not fit the template)")
    gi = m.groupdict()
    for k in ("c1", "ca", "cb", "c2", "c3", "c4", "c5", "c6"):
        gi[k] = cint(gi[k])
    out["getIndex"] = gi

    m = need(re.search(r"auto isNonKing = \[ \] \( int p \) \{ return p != Piece :: (\w+) && p != Piece :: (\w+) && p != Piece :: (\w+) ; \} ;", nn),
             "isNonKing lambda of NNEvaluator::setPiece")
    out["nonking_excl"] = [m.group(i) for i in (1, 2, 3)]
    for k in out["nonking_excl"]:
        if k not in codes:
            raise TranslatorError("translator cannot handle: Piece::%s" % k)
    m = need(re.search(r"int add \[ 2 \] \[ (%s) \] ;" % INT, nn), "scratch array add[2][N] of computeL1WB")
    out["addCap"] = cint(m.group(1))

    # ---- nneval.hpp / nntypes.hpp / constants.hpp
    hpp = norm(rd("nn", "nneval.hpp"))
    cst = norm(rd("constants.hpp"))
    msd = cint(need(re.search(r"const int MAX_SEARCH_DEPTH = ([^;]+) ;", cst), "MAX_SEARCH_DEPTH").group(1))
    out["maxIncr"] = cint(need(re.search(r"static constexpr int maxIncr = ([^;]+) ;", hpp), "maxIncr").group(1))
    e = need(re.search(r"static constexpr int maxStackSize = ([^;]+) ;", hpp), "maxStackSize").group(1)
    e = e.replace("SearchConst :: MAX_SEARCH_DEPTH", str(msd))
    out["maxStackSize"] = cint(e)
    nt = norm(rd("nn", "nntypes.hpp"))
    out["inFeatures"] = cint(need(re.search(r"static constexpr int inFeatures = ([^;]+) ;", nt), "inFeatures").group(1))
    out["n1"] = cint(need(re.search(r"static constexpr int n1 = ([^;]+) ;", nt), "n1").group(1))
    out["l1Shift"] = cint(need(re.search(r"static constexpr int l1Shift = ([^;]+) ;", nt), "l1Shift").group(1))

    # ---- vectorop.hpp: generic fallback of scaleClipPack
    vo = norm(rd("nn", "vectorop.hpp"))
    m = need(re.search(r"for \( int i = 0 ; i < n1 ; i \+\+ \) out \[ i \] = clamp \( l1OutC \( i \) >> shift , (- ?%s|%s) , (%s) \) ; \}" % (INT, INT, INT), vo),
             "generic fallback loop of scaleClipPack")
    out["clipLo"] = cint(m.group(1))
    out["clipHi"] = cint(m.group(2))
    need(re.search(r"scaleClipPack < NetData :: l1Shift > \( & l1OutClipped \( c \* n1 \) , l1OutC \)", nn), "scaleClipPack call of computeL1Out")

    # ---- evaluation cache
    eh = norm(rd("evaluate.hpp"))
    ec = norm(rd("evaluate.cpp"))
    m = need(re.search(r"using EvalHashType = std :: array < EvalHashData , \( ([^;]+?) \) > ;", eh), "EvalHashType size")
    out["evalHashSize"] = cint(m.group(1))
    m = need(re.search(r"Evaluate :: EvalHashData :: EvalHashData \( \) : data \( (%s) \) \{ \}" % INT, eh), "EvalHashData()")
    out["evalHashEmpty"] = cint(m.group(1))
    need(re.search(r"int e0 = \( int \) key & \( evalHash \. size \( \) - 1 \) ; return evalHash \[ e0 \] ;", eh), "getEvalHashEntry")
    m = need(re.search(r"U64 key = posP -> historyHash \( \) ;(?P<mix>(?: key \^= [^;]+ ;)?) if \( useHashTable \) \{ ehd = & getEvalHashEntry \( key \) ; "
                       r"if \( \( ehd -> data \^ key \) < \( ([^;]+?) \) \) return \( ehd -> data & (%s) \) - \( ([^;]+?) \) ; \}" % INT, ec),
             "cache probe of Evaluate::evalPos")
    mix = m.group("mix").strip()
    out["evalHitBelow"] = cint(m.group(2))
    out["evalScoreMask"] = cint(m.group(3))
    out["evalScoreBias"] = cint(m.group(4))
    if mix:
        mm = need(re.fullmatch(r"key \^= (%s) \* \( U64 \) whiteContempt ;" % INT, mix), "contempt mixing statement %r" % mix)
        out["evalKeyContemptMul"] = cint(mm.group(1))
    else:
        out["evalKeyContemptMul"] = 0
    m = need(re.search(r"if \( useHashTable \) ehd -> data = \( key & (%s) \) \+ \( score \+ \( ([^;]+?) \) \) ;" % INT, ec), "cache store of Evaluate::evalPos")
    out["evalKeyMask"] = cint(m.group(1))
    if cint(m.group(2)) != out["evalScoreBias"]:
        raise TranslatorError("translator cannot handle: score bias of store and probe differ")
    m = need(re.search(r"if \( \( whiteContempt != 0 \) && ! mhd -> endGame \) \{.*?score \+= whiteContempt \* piecePlay / (%s) ;" % INT, ec),
             "contempt term of Evaluate::evalPos")
    out["contemptDiv"] = cint(m.group(1))
    need(re.search(r"inline void Evaluate :: setWhiteContempt \( int contempt \) \{ whiteContempt = contempt ; \}", eh), "Evaluate::setWhiteContempt")
    return out


CMPZ = {">=": ">=?", "<=": "<=?", ">": ">?", "<": "<?", "==": "=?"}


def zc(op, a, b):
    if op == "!=":
        return "negb (%s =? %s)" % (a, b)
    return "%s %s %s" % (a, CMPZ[op], b)


def z(v):
    return "%d" % v if v >= 0 else "(%d)" % v


def render(o):
    g = o["getIndex"]
    L = ["(* GENERATED by tx/c07_gen.py from lib/texellib/{piece,square,constants,evaluate}.hpp, nn/nneval.{hpp,cpp},",
         "   nn/nntypes.hpp, evaluate.cpp -- do not edit; rewritten on every check run *)",
         "From Coq Require Import ZArith List Bool.",
         "Import ListNotations.",
         "Local Open Scope Z_scope.",
         ""]
    for k, v in sorted(o["piece"].items(), key=lambda kv: kv[1]):
        L.append("Definition Piece_%s : Z := %s." % (k, z(v)))
    L.append("")
    L.append("(* NNEvaluator::ptValue is a zero-initialised static int array; staticInitialize sets: *)")
    L.append("Definition ptValueTable : list (Z * Z) := [%s]." %
             "; ".join("(Piece_%s, %s)" % (k, z(v)) for k, v in sorted(o["ptValue"].items(), key=lambda kv: o["piece"][kv[0]])))
    L.append("Fixpoint assocZ (l : list (Z * Z)) (k : Z) : Z :=")
    L.append("  match l with [] => 0 | (a, b) :: t => if a =? k then b else assocZ t k end.")
    L.append("Definition ptValue (p : Z) : Z := assocZ ptValueTable p.")
    L.append("Definition isNonKing (p : Z) : bool := %s." %
             " && ".join("negb (p =? Piece_%s)" % k for k in o["nonking_excl"]))
    L.append("")
    L.append("Definition sq_invalid : Z := %s." % z(o["sq_invalid"]))
    L.append("Definition sq_getX (s : Z) : Z := Z.land s %d." % o["getX_mask"])
    L.append("Definition sq_getY (s : Z) : Z := Z.shiftr s %d." % o["getY_shift"])
    L.append("Definition sq_mirrorX (s : Z) : Z := Z.lxor s %d." % o["mirrorX_xor"])
    L.append("Definition sq_mirrorY (s : Z) : Z := Z.lxor s %d." % o["mirrorY_xor"])
    L.append("Definition sq_rot180 (s : Z) : Z := %d - s." % o["rot180_from"])
    L.append("")
    L.append("(* nneval.cpp: static inline int getIndex(Square kSq, int pt, Square sq, bool white) *)")
    L.append("Definition getIndex (kSq pt sq : Z) (white : bool) : Z :=")
    L.append("  let '(kSq, pt, sq) :=")
    L.append("    if %s" % ("negb white" if g["neg"] else "white"))
    L.append("    then (sq_%s kSq, (if %s then pt %s %d else pt %s %d), sq_%s sq)" %
             (g["m1"], zc(g["op1"], "pt", str(g["c1"])), g["opa"], g["ca"], g["opb"], g["cb"], g["m2"]))
    L.append("    else (kSq, pt, sq) in")
    L.append("  let x := sq_%s kSq in" % g["gx"])
    L.append("  let y := sq_%s kSq in" % g["gy"])
    L.append("  let '(x, sq) := if %s then (Z.lxor x %d, sq_%s sq) else (x, sq) in" % (zc(g["op2"], "x", str(g["c2"])), g["c3"], g["m3"]))
    L.append("  let kIdx := y * %d + x in" % g["c4"])
    L.append("  (kIdx * %d + pt) * %d + sq." % (g["c5"], g["c6"]))
    L.append("")
    for k in ("maxIncr", "maxStackSize", "addCap", "n1", "inFeatures", "l1Shift", "clipLo", "clipHi"):
        L.append("Definition %s : Z := %s." % (k, z(o[k])))
    L.append("")
    L.append("(* evaluation cache (evaluate.hpp / evaluate.cpp: evalPos) *)")
    for k in ("evalHashSize", "evalHashEmpty", "evalHitBelow", "evalScoreMask", "evalScoreBias", "evalKeyMask",
              "evalKeyContemptMul", "contemptDiv"):
        L.append("Definition %s : Z := %s." % (k, z(o[k])))
    return "\n".join(L) + "\n"


def generate(repo, verif):
    """Write coq/gen/NNGen.v when its content changed.  Returns (parsed dict, changed)."""
    o = parse(repo)
    txt = render(o)
    d = os.path.join(verif, "coq", "gen")
    os.makedirs(d, exist_ok=True)
    p = os.path.join(d, "NNGen.v")
    old = open(p).read() if os.path.exists(p) else None
    if old != txt:
        with open(p + ".tmp", "w") as f:
            f.write(txt)
        os.replace(p + ".tmp", p)
        return o, True
    return o, False


if __name__ == "__main__":
    repo = os.environ.get("VERIF_REPO", "/repo")
    verif = os.path.dirname(os.path.dirname(os.path.abspath(__file__)))
    try:
        o, ch = generate(repo, verif)
    except TranslatorError as ex:
        print(ex)
        sys.exit(3)
    print("NNGen.v %s" % ("rewritten" if ch else "unchanged"))
